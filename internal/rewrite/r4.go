package rewrite

import (
	"go/ast"
	"go/parser"
	"go/token"
	"os"
	"path/filepath"
	"strconv"
	"strings"
)

// r4Funcs are the os functions redirected to simos.
var r4Funcs = map[string]bool{
	"ReadFile": true, "ReadDir": true, "MkdirAll": true, "Remove": true,
	"WriteFile": true, "Create": true, "Stat": true,
}

// R4Stats counts rewritten call sites per function.
type R4Stats struct {
	Sites map[string]int `json:"sites"`
	Files []string       `json:"files"`
}

// R4 redirects os.<Func> calls in the non-test files of the given package directories of the
// scratch module to <module>/internal/simos. It needs no type information: an identifier `os` that is not
// resolved to a local object in a file that imports "os" under its default name is the package.
func R4(moduleDir, simosImport string, pkgDirs []string) (*R4Stats, error) {
	st := &R4Stats{Sites: map[string]int{}}
	fe := NewFileEdits()
	for _, d := range pkgDirs {
		ents, err := os.ReadDir(filepath.Join(moduleDir, d))
		if err != nil {
			return nil, err
		}
		for _, e := range ents {
			n := e.Name()
			if e.IsDir() || !strings.HasSuffix(n, ".go") || strings.HasSuffix(n, "_test.go") {
				continue
			}
			path := filepath.Join(moduleDir, d, n)
			fset := token.NewFileSet()
			f, err := parser.ParseFile(fset, path, nil, parser.ParseComments)
			if err != nil {
				return nil, err
			}
			osName := ""
			for _, im := range f.Imports {
				p, _ := strconv.Unquote(im.Path.Value)
				if p == "os" {
					osName = "os"
					if im.Name != nil {
						osName = im.Name.Name
					}
				}
			}
			if osName == "" || osName == "_" || osName == "." {
				continue
			}
			hits := 0
			ast.Inspect(f, func(nd ast.Node) bool {
				se, ok := nd.(*ast.SelectorExpr)
				if !ok {
					return true
				}
				id, ok := se.X.(*ast.Ident)
				if !ok || id.Name != osName || id.Obj != nil || !r4Funcs[se.Sel.Name] {
					return true
				}
				off := fset.Position(id.Pos()).Offset
				fe.Add(path, off, off+len(id.Name), "simos")
				st.Sites[se.Sel.Name]++
				hits++
				return true
			})
			if hits == 0 {
				continue
			}
			st.Files = append(st.Files, filepath.Join(d, n))
			// import right after the package clause; keep "os" referenced.
			end := fset.Position(f.Name.End()).Offset
			fe.Add(path, end, end, "\nimport simos "+strconv.Quote(simosImport)+"\n")
			eof := fset.Position(f.End()).Offset
			fe.Add(path, eof, eof, "\nvar _ = "+osName+".Getpid\n")
		}
	}
	return st, fe.Apply()
}
