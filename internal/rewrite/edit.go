// Package rewrite is simrewrite (DESIGN.md 3.2): mechanical, semantics-preserving instrumentation of
// the scratch copy. It never touches /repo. Rules work on parsed (R4) or type-checked (R1-R7) syntax
// and splice text at node positions; a site whose shape a rule does not support is left as is and
// counted as uncontrolled.
package rewrite

import (
	"fmt"
	"os"
	"sort"
)

// Edit replaces src[Start:End] by Text.
type Edit struct {
	Start, End int
	Text       string
	seq        int
}

// FileEdits collects edits per file.
type FileEdits struct {
	m   map[string][]Edit
	seq int
}

func NewFileEdits() *FileEdits { return &FileEdits{m: map[string][]Edit{}} }

func (fe *FileEdits) Add(file string, start, end int, text string) {
	fe.seq++
	fe.m[file] = append(fe.m[file], Edit{start, end, text, fe.seq})
}

// Files lists files with edits.
func (fe *FileEdits) Files() []string {
	var fs []string
	for f := range fe.m {
		fs = append(fs, f)
	}
	sort.Strings(fs)
	return fs
}

// Apply writes all edits. Edits are applied from the end of the file backwards; among insertions at
// the same offset, "closing" texts (added first by inner nodes) must come out in nesting order, which
// is obtained by sorting on (offset desc, deleted length desc, sequence desc).
func (fe *FileEdits) Apply() error {
	for file, es := range fe.m {
		src, err := os.ReadFile(file)
		if err != nil {
			return err
		}
		sort.SliceStable(es, func(i, j int) bool {
			if es[i].Start != es[j].Start {
				return es[i].Start > es[j].Start
			}
			di, dj := es[i].End-es[i].Start, es[j].End-es[j].Start
			if di != dj {
				return di > dj
			}
			return es[i].seq > es[j].seq
		})
		prevStart := len(src) + 1
		for _, e := range es {
			if e.End > prevStart {
				return fmt.Errorf("rewrite: overlapping edits in %s at %d", file, e.Start)
			}
			src = append(src[:e.Start:e.Start], append([]byte(e.Text), src[e.End:]...)...)
			prevStart = e.Start
		}
		if err := os.WriteFile(file, src, 0o644); err != nil {
			return err
		}
	}
	return nil
}
