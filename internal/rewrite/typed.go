package rewrite

import (
	"bytes"
	"fmt"
	"go/ast"
	"go/token"
	"go/types"
	"os"
	"path/filepath"
	"sort"
	"strconv"
	"strings"

	"golang.org/x/tools/go/packages"
)

// Options selects rules and packages.
type Options struct {
	ModuleDir      string   // directory of the module to rewrite
	Env            []string // environment for `go list`
	Patterns       []string // package patterns, e.g. ./...
	Skip           func(pkgPath string) bool
	SimrtPath      string // import path of simrt
	SimjxPath      string // import path of simjx ("" = do not redirect jx pools)
	R1, R2, R3, R5 bool
	// R7 selects the packages in which synchronisation operations become preemption points (nil = none).
	R7 func(pkgPath string) bool
}

// Site describes one instrumented site.
type Site struct {
	ID    string `json:"id"`    // pkg/file.go:line:rule
	Label string `json:"label"` // pkg/file.go:Func/rule#n - survives edits elsewhere in the file
	Rule  string `json:"rule"`  // R1 R2 R3 R5task R5writer
	Note  string `json:"note,omitempty"`
}

// Stats summarises a rewrite.
type Stats struct {
	Sites        []Site         `json:"sites"`
	PerRule      map[string]int `json:"per_rule"`
	Uncontrolled []Site         `json:"uncontrolled"` // recognised but not rewritten
	Packages     int            `json:"packages"`
}

// Typed applies the typed rules to the module.
func Typed(o Options) (*Stats, error) {
	cfg := &packages.Config{
		Mode:  packages.NeedName | packages.NeedFiles | packages.NeedCompiledGoFiles | packages.NeedSyntax | packages.NeedTypes | packages.NeedTypesInfo | packages.NeedImports | packages.NeedDeps,
		Dir:   o.ModuleDir,
		Env:   o.Env,
		Tests: false,
	}
	pkgs, err := packages.Load(cfg, o.Patterns...)
	if err != nil {
		return nil, err
	}
	st := &Stats{PerRule: map[string]int{}}
	fe := NewFileEdits()
	needImport := map[string]map[string]bool{} // file -> import path set
	for _, p := range pkgs {
		if len(p.Errors) > 0 {
			return nil, fmt.Errorf("rewrite: package %s: %v", p.PkgPath, p.Errors[0])
		}
		if o.Skip != nil && o.Skip(p.PkgPath) {
			continue
		}
		st.Packages++
		for i, f := range p.Syntax {
			file := p.CompiledGoFiles[i]
			if !strings.HasPrefix(file, o.ModuleDir) || strings.HasSuffix(file, "_test.go") {
				continue
			}
			src, err := os.ReadFile(file)
			if err != nil {
				return nil, err
			}
			r := &fileRewriter{o: o, p: p, f: f, file: file, src: src, fe: fe, st: st}
			r.run()
			if len(r.imports) > 0 {
				needImport[file] = r.imports
				end := p.Fset.Position(f.Name.End()).Offset
				var sb strings.Builder
				var ips []string
				for ip := range r.imports {
					ips = append(ips, ip)
				}
				sort.Strings(ips)
				for _, ip := range ips {
					fmt.Fprintf(&sb, "\nimport %s %s", filepath.Base(ip), strconv.Quote(ip))
				}
				sb.WriteString("\n")
				fe.Add(file, end, end, sb.String())
			}
		}
	}
	sort.Slice(st.Sites, func(i, j int) bool { return st.Sites[i].ID < st.Sites[j].ID })
	return st, fe.Apply()
}

type fileRewriter struct {
	o       Options
	p       *packages.Package
	f       *ast.File
	file    string
	src     []byte
	fe      *FileEdits
	st      *Stats
	imports map[string]bool
	n       int
	fn      string         // enclosing top-level function
	ord     map[string]int // per (function, rule) ordinal
}

func (r *fileRewriter) off(p token.Pos) int { return r.p.Fset.Position(p).Offset }
func (r *fileRewriter) text(n ast.Node) string {
	return string(r.src[r.off(n.Pos()):r.off(n.End())])
}

func (r *fileRewriter) site(pos token.Pos, rule string) string {
	ps := r.p.Fset.Position(pos)
	rel, err := filepath.Rel(r.o.ModuleDir, ps.Filename)
	if err != nil {
		rel = ps.Filename
	}
	return fmt.Sprintf("%s:%d:%s", filepath.ToSlash(rel), ps.Line, rule)
}

func (r *fileRewriter) use(ip string) {
	if r.imports == nil {
		r.imports = map[string]bool{}
	}
	r.imports[ip] = true
}

func (r *fileRewriter) add(id, rule, note string) {
	if r.ord == nil {
		r.ord = map[string]int{}
	}
	k := r.fn + "/" + rule
	r.ord[k]++
	file := id
	if i := strings.IndexByte(id, ':'); i >= 0 {
		file = id[:i]
	}
	r.st.Sites = append(r.st.Sites, Site{ID: id, Label: fmt.Sprintf("%s:%s/%s#%d", file, r.fn, rule, r.ord[k]), Rule: rule, Note: note})
	r.st.PerRule[rule]++
}

func (r *fileRewriter) skip(id, rule, why string) {
	r.st.Uncontrolled = append(r.st.Uncontrolled, Site{ID: id, Rule: rule, Note: why})
}

func isMap(t types.Type) bool {
	if t == nil {
		return false
	}
	switch u := t.Underlying().(type) {
	case *types.Map:
		return true
	case *types.Interface:
		// a type parameter: its constraint must have a single map core type
		if _, ok := t.(*types.TypeParam); !ok {
			return false
		}
		var core types.Type
		okAll := true
		n := 0
		for i := 0; i < u.NumEmbeddeds(); i++ {
			switch e := u.EmbeddedType(i).(type) {
			case *types.Union:
				for j := 0; j < e.Len(); j++ {
					n++
					tu := e.Term(j).Type().Underlying()
					if _, ok := tu.(*types.Map); !ok {
						okAll = false
					}
					core = tu
				}
			default:
				n++
				if _, ok := e.Underlying().(*types.Map); !ok {
					okAll = false
				}
				core = e
			}
		}
		return n > 0 && okAll && core != nil
	}
	return false
}

func containsFuncLit(n ast.Node) bool {
	found := false
	ast.Inspect(n, func(x ast.Node) bool {
		if _, ok := x.(*ast.FuncLit); ok {
			found = true
		}
		return !found
	})
	return found
}

func (r *fileRewriter) run() {
	info := r.p.TypesInfo
	var stack []ast.Node
	ast.Inspect(r.f, func(n ast.Node) bool {
		if n == nil {
			stack = stack[:len(stack)-1]
			return true
		}
		var parent ast.Node
		if len(stack) > 0 {
			parent = stack[len(stack)-1]
		}
		stack = append(stack, n)
		switch x := n.(type) {
		case *ast.FuncDecl:
			r.fn = x.Name.Name
			if x.Recv != nil && len(x.Recv.List) > 0 {
				r.fn = r.text(x.Recv.List[0].Type) + "." + x.Name.Name
			}
		case *ast.RangeStmt:
			if r.o.R1 && isMap(info.TypeOf(x.X)) {
				r.rangeStmt(x, parent)
			}
		case *ast.CallExpr:
			r.call(x)
			if r.o.R7 != nil && r.o.R7(r.p.PkgPath) {
				r.syncOp(x, stack)
			}
		case *ast.SelectorExpr:
			if r.o.R3 {
				// the type sync.Pool
				if id, ok := x.X.(*ast.Ident); ok && x.Sel.Name == "Pool" {
					if pn, ok := info.Uses[id].(*types.PkgName); ok && pn.Imported().Path() == "sync" {
						id2 := r.site(x.Pos(), "R3")
						r.fe.Add(r.file, r.off(x.Pos()), r.off(x.End()), "simrt.Pool")
						r.use(r.o.SimrtPath)
						r.add(id2, "R3", "sync.Pool")
					}
				}
			}
		}
		return true
	})
	// keep a possibly orphaned "sync" import referenced
	if r.o.R3 {
		for _, im := range r.f.Imports {
			if p, _ := strconv.Unquote(im.Path.Value); p == "sync" && im.Name == nil && r.imports[r.o.SimrtPath] {
				r.fe.Add(r.file, len(r.src), len(r.src), "\nvar _ sync.Locker\n")
			}
		}
	}
}

func (r *fileRewriter) rangeStmt(rs *ast.RangeStmt, parent ast.Node) {
	id := r.site(rs.For, "R1")
	if containsFuncLit(rs.X) {
		r.skip(id, "R1", "map expression contains a function literal")
		return
	}
	r.n++
	sfx := fmt.Sprintf("%d_%d", r.p.Fset.Position(rs.For).Line, r.n)
	m, k, v, ok := "simM"+sfx, "simK"+sfx, "simV"+sfx, "simOK"+sfx
	start := rs.For
	if ls, isL := parent.(*ast.LabeledStmt); isL && ls.Stmt == rs {
		start = ls.Pos()
	}
	isBlank := func(e ast.Expr) bool {
		if e == nil {
			return true
		}
		i, isId := e.(*ast.Ident)
		return isId && i.Name == "_"
	}
	var bind string
	asg := ":="
	if rs.Tok == token.ASSIGN {
		asg = "="
	}
	switch {
	case !isBlank(rs.Key) && !isBlank(rs.Value):
		bind = fmt.Sprintf("%s, %s %s %s, %s; ", r.text(rs.Key), r.text(rs.Value), asg, k, v)
	case !isBlank(rs.Key):
		bind = fmt.Sprintf("%s %s %s; ", r.text(rs.Key), asg, k)
	case !isBlank(rs.Value):
		bind = fmt.Sprintf("%s %s %s; ", r.text(rs.Value), asg, v)
	}
	head := fmt.Sprintf("for _, %s := range simrt.Keys(%s, %s) { %s, %s := %s[%s]; if !%s { continue }; _ = %s; %s{",
		k, strconv.Quote(id), m, v, ok, m, k, ok, v, bind)
	r.fe.Add(r.file, r.off(start), r.off(start), fmt.Sprintf("{ %s := %s; ", m, r.text(rs.X)))
	r.fe.Add(r.file, r.off(rs.For), r.off(rs.Body.Lbrace)+1, head)
	r.fe.Add(r.file, r.off(rs.End()), r.off(rs.End()), "}}")
	r.use(r.o.SimrtPath)
	r.add(id, "R1", "")
}

func (r *fileRewriter) pkgFunc(call *ast.CallExpr) (pkgPath, name string) {
	se, ok := call.Fun.(*ast.SelectorExpr)
	if !ok {
		// generic instantiation maps.Keys[...](m)
		if ie, ok := call.Fun.(*ast.IndexExpr); ok {
			se, ok = ie.X.(*ast.SelectorExpr)
			if !ok {
				return "", ""
			}
		} else {
			return "", ""
		}
	}
	id, ok := se.X.(*ast.Ident)
	if !ok {
		return "", ""
	}
	pn, ok := r.p.TypesInfo.Uses[id].(*types.PkgName)
	if !ok {
		return "", ""
	}
	return pn.Imported().Path(), se.Sel.Name
}

func (r *fileRewriter) call(call *ast.CallExpr) {
	info := r.p.TypesInfo
	pkg, name := r.pkgFunc(call)
	// R2: results of maps.Keys / maps.Values
	if r.o.R2 && (pkg == "golang.org/x/exp/maps" || pkg == "maps") && (name == "Keys" || name == "Values") {
		if tv, ok := info.Types[call]; ok {
			if _, isSlice := tv.Type.Underlying().(*types.Slice); isSlice {
				id := r.site(call.Pos(), "R2")
				r.fe.Add(r.file, r.off(call.Pos()), r.off(call.Pos()), "simrt.Order("+strconv.Quote(id)+", ")
				r.fe.Add(r.file, r.off(call.End()), r.off(call.End()), ")")
				r.use(r.o.SimrtPath)
				r.add(id, "R2", pkg+"."+name)
			}
		}
	}
	// R3: jx pools
	if r.o.R3 && r.o.SimjxPath != "" && pkg == "github.com/go-faster/jx" {
		switch name {
		case "GetEncoder", "PutEncoder", "GetDecoder", "PutDecoder", "GetWriter", "PutWriter":
			se := call.Fun.(*ast.SelectorExpr)
			id := r.site(call.Pos(), "R3")
			r.fe.Add(r.file, r.off(se.X.Pos()), r.off(se.X.End()), "simjx")
			r.use(r.o.SimjxPath)
			r.add(id, "R3", "jx."+name)
			// keep jx referenced
			r.fe.Add(r.file, len(r.src), len(r.src), "\nvar _ jx.Type\n")
		}
	}
	if !r.o.R5 {
		return
	}
	// R5: errgroup.Group.Go(f)
	if se, ok := call.Fun.(*ast.SelectorExpr); ok && se.Sel.Name == "Go" && len(call.Args) == 1 {
		if sel, ok := info.Selections[se]; ok {
			recv := sel.Recv()
			if p, ok := recv.(*types.Pointer); ok {
				recv = p.Elem()
			}
			if nt, ok := recv.(*types.Named); ok && nt.Obj().Pkg() != nil && nt.Obj().Pkg().Path() == "golang.org/x/sync/errgroup" && nt.Obj().Name() == "Group" {
				id := r.site(call.Pos(), "R5task")
				a := call.Args[0]
				r.fe.Add(r.file, r.off(a.Pos()), r.off(a.Pos()), "simrt.TaskE("+strconv.Quote(id)+", ")
				r.fe.Add(r.file, r.off(a.End()), r.off(a.End()), ")")
				r.use(r.o.SimrtPath)
				r.add(id, "R5task", "errgroup.Go")
			}
		}
	}
	// R5: (*template.Template).ExecuteTemplate(w, name, data): wrap the writer
	if se, ok := call.Fun.(*ast.SelectorExpr); ok && se.Sel.Name == "ExecuteTemplate" && len(call.Args) == 3 {
		if sel, ok := info.Selections[se]; ok {
			recv := sel.Recv()
			if p, ok := recv.(*types.Pointer); ok {
				recv = p.Elem()
			}
			if nt, ok := recv.(*types.Named); ok && nt.Obj().Pkg() != nil && nt.Obj().Pkg().Path() == "text/template" {
				id := r.site(call.Pos(), "R5writer")
				w := call.Args[0]
				label := `""`
				switch l := call.Args[1].(type) {
				case *ast.Ident, *ast.BasicLit:
					label = r.text(l)
				}
				r.fe.Add(r.file, r.off(w.Pos()), r.off(w.Pos()), "simrt.YieldWriter("+strconv.Quote(id)+", ")
				r.fe.Add(r.file, r.off(w.End()), r.off(w.End()), ", "+label+")")
				r.use(r.o.SimrtPath)
				r.add(id, "R5writer", "template output")
			}
		}
	}
}

// syncOp is R7: a synchronisation operation (sync/atomic functions and methods, sync.Map methods, acquiring a
// sync.Mutex/RWMutex) is a point where the Go scheduler may preempt the goroutine, and the only kind of point at which
// a preemption can change what lock-free or finely locked code computes. The operand the operation works on is passed
// through simrt.At, which may yield first. Yields are suppressed while the goroutine holds a lock taken at a rewritten
// site (simrt.Held), because a goroutine waiting for a sync.Mutex is not durably blocked and the bubble would stall.
func (r *fileRewriter) syncOp(call *ast.CallExpr, stack []ast.Node) {
	info := r.p.TypesInfo
	at := func(x ast.Expr, addr bool, id string) {
		pre := "simrt.At(" + strconv.Quote(id) + ", "
		if addr {
			pre += "&("
		}
		post := ")"
		if addr {
			post = "))"
		}
		r.fe.Add(r.file, r.off(x.Pos()), r.off(x.Pos()), pre)
		r.fe.Add(r.file, r.off(x.End()), r.off(x.End()), post)
		r.use(r.o.SimrtPath)
	}
	// statement context: the call is an expression statement (or the call of a defer) directly in a statement list
	var stmt ast.Stmt
	inList := false
	if n := len(stack); n >= 3 {
		switch p := stack[n-2].(type) {
		case *ast.ExprStmt:
			stmt = p
		case *ast.DeferStmt:
			stmt = p
		}
		if stmt != nil {
			switch stack[n-3].(type) {
			case *ast.BlockStmt, *ast.CaseClause, *ast.CommClause:
				inList = true
			}
		}
	}
	if pkg, name := r.pkgFunc(call); pkg == "sync/atomic" && len(call.Args) >= 1 {
		if _, isFunc := info.Uses[call.Fun.(*ast.SelectorExpr).Sel].(*types.Func); isFunc {
			id := r.site(call.Pos(), "R7")
			at(call.Args[0], false, id)
			r.add(id, "R7", "atomic."+name)
		}
		return
	}
	se, ok := call.Fun.(*ast.SelectorExpr)
	if !ok {
		return
	}
	sel, ok := info.Selections[se]
	if !ok || sel.Kind() != types.MethodVal {
		return
	}
	fn, ok := sel.Obj().(*types.Func)
	if !ok || fn.Pkg() == nil {
		return
	}
	sig, _ := fn.Type().(*types.Signature)
	if sig == nil || sig.Recv() == nil {
		return
	}
	rt := sig.Recv().Type()
	ptrRecv := false
	if p, ok := rt.(*types.Pointer); ok {
		rt, ptrRecv = p.Elem(), true
	}
	nt, ok := rt.(*types.Named)
	if !ok {
		return
	}
	tname := nt.Obj().Name()
	_, xIsPtr := info.TypeOf(se.X).Underlying().(*types.Pointer)
	addr := ptrRecv && !xIsPtr
	id := r.site(call.Pos(), "R7")
	switch fn.Pkg().Path() {
	case "sync/atomic":
		at(se.X, addr, id)
		r.add(id, "R7", "atomic."+tname+"."+fn.Name())
	case "sync":
		switch {
		case tname == "Map":
			at(se.X, addr, id)
			r.add(id, "R7", "sync.Map."+fn.Name())
		case (tname == "Mutex" || tname == "RWMutex") && (fn.Name() == "Lock" || fn.Name() == "RLock"):
			if _, isExpr := stmt.(*ast.ExprStmt); !isExpr || !inList {
				r.skip(id, "R7", "lock taken outside a plain statement: not tracked")
				return
			}
			at(se.X, addr, id)
			r.fe.Add(r.file, r.off(stmt.End()), r.off(stmt.End()), "; simrt.Held(1)")
			r.add(id, "R7", "sync."+tname+"."+fn.Name())
		case (tname == "Mutex" || tname == "RWMutex") && (fn.Name() == "Unlock" || fn.Name() == "RUnlock"):
			if !inList {
				r.skip(id, "R7", "unlock outside a plain statement: the goroutine counts as holding the lock from here on")
				return
			}
			if _, isDefer := stmt.(*ast.DeferStmt); isDefer {
				r.fe.Add(r.file, r.off(stmt.Pos()), r.off(stmt.Pos()), "defer simrt.Held(-1); ")
			} else {
				r.fe.Add(r.file, r.off(stmt.End()), r.off(stmt.End()), "; simrt.Held(-1)")
			}
			r.use(r.o.SimrtPath)
			r.add(id, "R7", "sync."+tname+"."+fn.Name())
		case (tname == "Mutex" || tname == "RWMutex") && (fn.Name() == "TryLock" || fn.Name() == "TryRLock"):
			r.skip(id, "R7", "TryLock: not tracked")
		case tname == "Once" && fn.Name() == "Do":
			// the function runs with the Once's lock held: no yields inside it
			if _, isExpr := stmt.(*ast.ExprStmt); !isExpr || !inList {
				r.skip(id, "R7", "Once.Do outside a plain statement: not tracked")
				return
			}
			r.fe.Add(r.file, r.off(stmt.Pos()), r.off(stmt.Pos()), "simrt.Held(1); ")
			r.fe.Add(r.file, r.off(stmt.End()), r.off(stmt.End()), "; simrt.Held(-1)")
			r.use(r.o.SimrtPath)
			r.add(id, "R7", "sync.Once.Do")
		}
	}
}

// InstallRuntime copies simrt (and simjx) from /verif/simsrc into the module under rewrite.
func InstallRuntime(simsrc, moduleDir string) error {
	return copyTree(filepath.Join(simsrc, "simrt"), filepath.Join(moduleDir, "simrt"))
}

func copyTree(src, dst string) error {
	return filepath.Walk(src, func(p string, info os.FileInfo, err error) error {
		if err != nil {
			return err
		}
		rel, _ := filepath.Rel(src, p)
		if info.IsDir() {
			return os.MkdirAll(filepath.Join(dst, rel), 0o755)
		}
		b, err := os.ReadFile(p)
		if err != nil {
			return err
		}
		return os.WriteFile(filepath.Join(dst, rel), bytes.Clone(b), 0o644)
	})
}
