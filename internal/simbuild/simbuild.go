// Package simbuild prepares instrumented scratch copies and simulation binaries (DESIGN.md 3.1).
package simbuild

import (
	"os"
	"path/filepath"
	"strings"

	"verif/internal/build"
	"verif/internal/rewrite"
)

const (
	SimrtPath = "github.com/ogen-go/ogen/simrt"
	SimjxPath = "github.com/ogen-go/ogen/simrt/simjx"
)

// SimSrc is where the harness and runtime sources live.
func SimSrc() string { return filepath.Join(build.VerifDir, "simsrc") }

// InstrumentOgen installs simrt into the scratch copy and applies the typed rules to ogen's own packages.
func InstrumentOgen(s *build.Scratch) (*rewrite.Stats, error) {
	if err := rewrite.InstallRuntime(SimSrc(), s.Src); err != nil {
		return nil, build.Toolf("install simrt: %v", err)
	}
	st, err := rewrite.Typed(rewrite.Options{
		ModuleDir: s.Src,
		Env:       append(os.Environ(), s.Env()...),
		Patterns:  []string{"./..."},
		Skip: func(p string) bool {
			return strings.HasPrefix(p, SimrtPath) || strings.Contains(p, "/internal/simos") ||
				strings.Contains(p, "/internal/integration") || strings.Contains(p, "/tools/") || strings.HasSuffix(p, "/tools")
		},
		SimrtPath: SimrtPath, SimjxPath: SimjxPath,
		R1: true, R2: true, R3: true, R5: true,
		R7: func(string) bool { return true },
	})
	if err != nil {
		return nil, build.Toolf("simrewrite: %v", err)
	}
	return st, nil
}

// HarnessDir is the scratch module that holds the simulation harness.
func HarnessDir(s *build.Scratch) string { return filepath.Join(s.Dir, "h") }

// PrepareHarness creates the harness module (replace github.com/ogen-go/ogen => ../ogen) with the given
// harness packages copied from /verif/simsrc.
func PrepareHarness(s *build.Scratch, pkgs ...string) error {
	h := HarnessDir(s)
	if err := os.MkdirAll(h, 0o755); err != nil {
		return build.Toolf("harness: %v", err)
	}
	gomod, err := os.ReadFile(filepath.Join(s.Src, "go.mod"))
	if err != nil {
		return build.Toolf("harness: %v", err)
	}
	var sb strings.Builder
	sb.WriteString("module simh\n\ngo 1.23.0\n\nrequire github.com/ogen-go/ogen v0.0.0\n\nreplace github.com/ogen-go/ogen => ../ogen\n\n")
	// copy ogen's require blocks so that every dependency version is pinned to what ogen uses
	lines := strings.Split(string(gomod), "\n")
	in := false
	for _, l := range lines {
		t := strings.TrimSpace(l)
		switch {
		case strings.HasPrefix(t, "require ("):
			in = true
			sb.WriteString(l + "\n")
		case in && t == ")":
			in = false
			sb.WriteString(l + "\n\n")
		case in:
			sb.WriteString(l + "\n")
		case strings.HasPrefix(t, "require "):
			sb.WriteString(l + "\n")
		}
	}
	if err := os.WriteFile(filepath.Join(h, "go.mod"), []byte(sb.String()), 0o644); err != nil {
		return build.Toolf("harness: %v", err)
	}
	sum, _ := os.ReadFile(filepath.Join(s.Src, "go.sum"))
	if err := os.WriteFile(filepath.Join(h, "go.sum"), sum, 0o644); err != nil {
		return build.Toolf("harness: %v", err)
	}
	for _, p := range pkgs {
		if err := copyTree(filepath.Join(SimSrc(), p), filepath.Join(h, p)); err != nil {
			return build.Toolf("harness: %v", err)
		}
	}
	return nil
}

// BuildTest compiles a harness test package with the simulation toolchain; race adds the race detector.
func BuildTest(s *build.Scratch, pkg, out string, race bool) (string, error) {
	args := []string{"test", "-c", "-trimpath"}
	if race {
		args = append(args, "-race")
	}
	bin := filepath.Join(s.Bin, out)
	args = append(args, "-o", bin, "./"+pkg)
	if err := s.Go(build.GoSim, HarnessDir(s), args...); err != nil {
		return "", err
	}
	return bin, nil
}

func copyTree(src, dst string) error {
	return filepath.Walk(src, func(p string, info os.FileInfo, err error) error {
		if err != nil {
			return err
		}
		rel, _ := filepath.Rel(src, p)
		if info.IsDir() {
			return os.MkdirAll(filepath.Join(dst, rel), 0o755)
		}
		b, err := os.ReadFile(p)
		if err != nil {
			return err
		}
		return os.WriteFile(filepath.Join(dst, rel), b, 0o644)
	})
}
