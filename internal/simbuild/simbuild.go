// Package simbuild prepares instrumented scratch copies and simulation binaries (DESIGN.md 3.1).
package simbuild

import (
	"os"
	"path/filepath"
	"strings"

	"verif/internal/build"
	"verif/internal/rewrite"
)

const (
	SimrtPath = "github.com/ogen-go/ogen/simrt"
	SimjxPath = "github.com/ogen-go/ogen/simrt/simjx"
)

// SimSrc is where the harness and runtime sources live.
func SimSrc() string { return filepath.Join(build.VerifDir, "simsrc") }

// InstrumentOgen installs simrt into the scratch copy and applies the typed rules to ogen's own packages.
func InstrumentOgen(s *build.Scratch) (*rewrite.Stats, error) {
	if err := rewrite.InstallRuntime(SimSrc(), s.Src); err != nil {
		return nil, build.Toolf("install simrt: %v", err)
	}
	st, err := rewrite.Typed(rewrite.Options{
		ModuleDir: s.Src,
		Env:       append(os.Environ(), s.Env()...),
		Patterns:  []string{"./..."},
		Skip: func(p string) bool {
			return strings.HasPrefix(p, SimrtPath) || strings.Contains(p, "/internal/simos") ||
				strings.Contains(p, "/internal/integration") || strings.Contains(p, "/tools/") || strings.HasSuffix(p, "/tools")
		},
		SimrtPath: SimrtPath, SimjxPath: SimjxPath,
		R1: true, R2: true, R3: true, R5: true,
	})
	if err != nil {
		return nil, build.Toolf("simrewrite: %v", err)
	}
	return st, nil
}
