package xch

import (
	"bufio"
	"bytes"
	"fmt"
	"os"
	"path/filepath"
	"strings"
	"time"

	"encoding/json"

	"verif/internal/build"
	"verif/internal/rewrite"
	"verif/internal/simbuild"
)

// R7SelfTest exercises rule R7 (synchronisation operations as preemption points) on the fixture simsrc/r7fix, because the
// unchanged tree has no such operation on the request path and the rule would otherwise only ever run on changed code.
// It demands: the rewritten fixture builds (plain and race); every shape of site is rewritten; no run stalls (no yield
// while a lock is held); the correct pieces are never flagged, the wrong ones are for some seed; a seed is one outcome at
// GOMAXPROCS 1, 4, 16, plain and race; the race detector stays silent (everything in the fixture is synchronised).
func (e *Engine) R7SelfTest(seed int64) (map[string]any, int, error) {
	h := simbuild.HarnessDir(e.S)
	dst := filepath.Join(h, "r7fix")
	if err := copyDir(filepath.Join(simbuild.SimSrc(), "r7fix"), dst); err != nil {
		return nil, 0, build.Toolf("%v", err)
	}
	st, err := rewrite.Typed(rewrite.Options{
		ModuleDir: h, Env: append(os.Environ(), e.S.Env()...), Patterns: []string{"./r7fix/..."},
		SimrtPath: simbuild.SimrtPath, R7: func(string) bool { return true },
	})
	if err != nil {
		return nil, 0, build.Toolf("R7 rewrite of the fixture: %v", err)
	}
	rep := map[string]any{"sites": st.PerRule["R7"], "uncontrolled": len(st.Uncontrolled)}
	bad := 0
	notes := map[string]int{}
	for _, s := range st.Sites {
		notes[s.Note]++
	}
	rep["site_kinds"] = notes
	for _, k := range []string{"atomic.Pointer.Load", "atomic.Pointer.Store", "atomic.Int64.Add", "atomic.Int64.Load", "atomic.StoreInt32", "atomic.LoadInt32", "sync.Map.LoadOrStore", "sync.Map.Load", "sync.Mutex.Lock", "sync.Mutex.Unlock", "sync.RWMutex.RLock", "sync.RWMutex.RUnlock", "sync.Once.Do"} {
		if notes[k] == 0 {
			fmt.Printf("selftest: R7 did not rewrite any %s in the fixture\n", k)
			bad++
		}
	}
	if len(st.Uncontrolled) > 0 {
		fmt.Printf("selftest: R7 left %d fixture site(s) alone: %+v\n", len(st.Uncontrolled), st.Uncontrolled)
		bad++
	}
	var seeds []string
	for i := 0; i < 48; i++ {
		seeds = append(seeds, fmt.Sprint(uint64(seed)*1000+uint64(i)+1))
	}
	type variant struct {
		name  string
		race  bool
		procs int
	}
	vars := []variant{{"plain/p1", false, 1}, {"plain/p4", false, 4}, {"plain/p16", false, 16}, {"race/p4", true, 4}}
	bins := map[bool]string{}
	for _, race := range []bool{false, true} {
		out := "r7fix.plain"
		if race {
			out = "r7fix.race"
		}
		bin, err := simbuild.BuildTest(e.S, "r7fix", out, race)
		if err != nil {
			return nil, 0, err
		}
		bins[race] = bin
	}
	type line struct {
		Seed       uint64 `json:"seed"`
		WrongPair  int    `json:"wrong_value_from_split_cache"`
		WrongPair2 int    `json:"wrong_value_from_pair_cache"`
		N          int    `json:"n"`
		Split      int    `json:"split"`
		Hits       int64  `json:"hits"`
		Ready      int32  `json:"ready"`
		PerSum     int64  `json:"per_sum"`
		Want       int    `json:"want"`
		Points     int64  `json:"points"`
		Yields     int64  `json:"yields"`
		Held       int64  `json:"held"`
		Sched      string `json:"sched"`
	}
	var first []string
	caughtCache, caughtSplit, points, yields, held := 0, 0, int64(0), int64(0), int64(0)
	scheds := map[string]bool{}
	for vi, v := range vars {
		outPath := filepath.Join(e.S.Dir, fmt.Sprintf("r7fix.%d.out", vi))
		env := []string{"VERIF_R7_SEEDS=" + strings.Join(seeds, ","), "VERIF_R7_OUT=" + outPath, fmt.Sprintf("GOMAXPROCS=%d", v.procs), "GORACE=halt_on_error=0 exitcode=0"}
		r := e.S.Run(h, 10*time.Minute, env, bins[v.race], "-test.run", "^TestSim$", "-test.timeout", "0", "-test.count", "1")
		stderr := string(r.Stderr) + string(r.Stdout)
		if r.Exit != 0 || r.Err != nil {
			return nil, 0, build.Toolf("R7 fixture run %s: exit %d %v\n%s", v.name, r.Exit, r.Err, tail(stderr, 3000))
		}
		if strings.Contains(stderr, "DATA RACE") {
			fmt.Printf("selftest: the race detector reports a race in the R7 fixture (%s); everything there is synchronised\n%s\n", v.name, tail(stderr, 2000))
			bad++
		}
		b, err := os.ReadFile(outPath)
		if err != nil {
			return nil, 0, build.Toolf("R7 fixture run %s: %v", v.name, err)
		}
		_ = os.Remove(outPath)
		var lines []string
		sc := bufio.NewScanner(bytes.NewReader(b))
		for sc.Scan() {
			lines = append(lines, sc.Text())
		}
		if len(lines) != len(seeds) {
			return nil, 0, build.Toolf("R7 fixture run %s: %d result lines for %d seeds", v.name, len(lines), len(seeds))
		}
		if vi == 0 {
			first = lines
			for _, l := range lines {
				var x line
				if err := json.Unmarshal([]byte(l), &x); err != nil {
					return nil, 0, build.Toolf("R7 fixture: %v", err)
				}
				if x.WrongPair2 != 0 || x.N != 2*x.Want || x.Hits != int64(x.Want) || x.PerSum != int64(x.Want) || x.Ready != 1 || x.Split > x.Want {
					fmt.Printf("selftest: R7 fixture seed %d: correct code misbehaved under the rewrite: %s\n", x.Seed, l)
					bad++
				}
				if x.WrongPair > 0 {
					caughtCache++
				}
				if x.Split < x.Want {
					caughtSplit++
				}
				points += x.Points
				yields += x.Yields
				held += x.Held
				scheds[x.Sched] = true
			}
			continue
		}
		for i := range lines {
			if lines[i] != first[i] {
				fmt.Printf("selftest: R7 fixture seed %s differs between %s and %s\n%s\n%s\n", seeds[i], vars[0].name, v.name, first[i], lines[i])
				bad++
				break
			}
		}
	}
	if caughtCache == 0 {
		fmt.Println("selftest: no seed made the split cache return a foreign value: R7 preemption does not reach between two atomics")
		bad++
	}
	if caughtSplit == 0 {
		fmt.Println("selftest: no seed lost an update of the split counter: R7 preemption does not reach between two critical sections")
		bad++
	}
	if held == 0 {
		fmt.Println("selftest: no synchronisation point was passed with a lock held: the no-yield-under-lock rule was not exercised")
		bad++
	}
	rep["seeds"], rep["variants"] = len(seeds), len(vars)
	rep["seeds_split_cache_returned_foreign_value"], rep["seeds_split_counter_lost_update"] = caughtCache, caughtSplit
	rep["points"], rep["preemptions"], rep["points_under_lock"], rep["distinct_schedules"] = points, yields, held, len(scheds)
	return rep, bad, nil
}
