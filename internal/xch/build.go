// Package xch drives the exchange simulation (C19, C01, C15): it regenerates the world packages with the
// CLI built from the current tree, instruments them together with ogen's runtime packages, builds the xsim
// harness (plain and race), samples scenarios, and applies the oracles of DESIGN.md section 4.
package xch

import (
	"os"
	"path/filepath"
	"strings"
	"sync"

	"verif/internal/build"
	"verif/internal/rewrite"
	"verif/internal/simbuild"
)

// Engine owns the scratch copy and the simulation binaries.
type Engine struct {
	S        *build.Scratch
	Plain    string
	Race     string
	Rewrite  *rewrite.Stats
	GenStats *rewrite.Stats
	jobSeq   int
	mu       sync.Mutex
}

const worldConfig = "generator:\n  features:\n    enable: [\"ogen/unimplemented\"]\n"

// NewEngine prepares everything. withRace also builds the race binary.
func NewEngine(id string, withRace bool) (*Engine, error) {
	s, err := build.NewScratch(id)
	if err != nil {
		return nil, err
	}
	if err := s.CopyRepo("/examples", "/internal/integration", "/_testdata", "/_logo"); err != nil {
		return nil, err
	}
	// 1. the plain CLI of the tree under test regenerates the world
	if err := s.BuildCLI("./cmd/ogen", "ogen", ""); err != nil {
		return nil, err
	}
	h := simbuild.HarnessDir(s)
	target := filepath.Join(h, "xw", "api")
	if err := os.MkdirAll(target, 0o755); err != nil {
		return nil, build.Toolf("%v", err)
	}
	work := filepath.Join(s.Dir, "genwork")
	_ = os.MkdirAll(work, 0o755)
	spec, err := os.ReadFile(filepath.Join(build.VerifDir, "worlds", "x", "world.yml"))
	if err != nil {
		return nil, build.Toolf("%v", err)
	}
	_ = os.WriteFile(filepath.Join(work, "world.yml"), spec, 0o644)
	_ = os.WriteFile(filepath.Join(work, "cfg.yml"), []byte(worldConfig), 0o644)
	r := s.Run(work, 0, nil, filepath.Join(s.Bin, "ogen"), "--config", "cfg.yml", "--target", target, "--package", "api", "--clean", "world.yml")
	if r.Err != nil || r.Exit != 0 {
		// The tree under test cannot generate the world: the exchange properties cannot be examined.
		return nil, build.Toolf("regenerating worlds/x/world.yml with the tree's CLI failed (exit %d): %s", r.Exit, tail(string(r.Stderr), 3000))
	}
	// 2. instrument ogen's own packages
	e := &Engine{S: s}
	if e.Rewrite, err = simbuild.InstrumentOgen(s); err != nil {
		return nil, err
	}
	// 3. harness module with the typed world harness bound to the regenerated package
	if err := simbuild.PrepareHarness(s, "xsim"); err != nil {
		return nil, err
	}
	for _, f := range []string{"world.go"} {
		p := filepath.Join(h, "xsim", f)
		b, err := os.ReadFile(p)
		if err != nil {
			return nil, build.Toolf("%v", err)
		}
		b = []byte(strings.ReplaceAll(string(b), "XSIM_API_IMPORT", "simh/xw/api"))
		if err := os.WriteFile(p, b, 0o644); err != nil {
			return nil, build.Toolf("%v", err)
		}
	}
	// 4. instrument the regenerated package with the same rules
	e.GenStats, err = rewrite.Typed(rewrite.Options{
		ModuleDir: h, Env: append(os.Environ(), s.Env()...), Patterns: []string{"./xw/..."},
		SimrtPath: simbuild.SimrtPath, SimjxPath: simbuild.SimjxPath, R1: true, R2: true, R3: true, R5: true,
	})
	if err != nil {
		return nil, build.Toolf("simrewrite of the regenerated world: %v", err)
	}
	var wg sync.WaitGroup
	var e1, e2 error
	wg.Add(1)
	go func() { defer wg.Done(); e.Plain, e1 = simbuild.BuildTest(s, "xsim", "xsim.plain", false) }()
	if withRace {
		wg.Add(1)
		go func() { defer wg.Done(); e.Race, e2 = simbuild.BuildTest(s, "xsim", "xsim.race", true) }()
	}
	wg.Wait()
	if e1 != nil {
		return nil, e1
	}
	if e2 != nil {
		return nil, e2
	}
	return e, nil
}

func tail(s string, n int) string {
	if len(s) > n {
		return s[len(s)-n:]
	}
	return s
}
