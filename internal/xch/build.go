// Package xch drives the exchange simulation (C19, C01, C15): it regenerates the world packages with the
// CLI built from the current tree, instruments them together with ogen's runtime packages, builds the xsim
// harness (plain and race), samples scenarios, and applies the oracles of DESIGN.md section 4.
package xch

import (
	"os"
	"path/filepath"
	"strings"
	"sync"

	"verif/internal/build"
	"verif/internal/rewrite"
	"verif/internal/simbuild"
)

// Engine owns the scratch copy and the simulation binaries.
type Engine struct {
	S             *build.Scratch
	Plain         map[string]string // world -> binary
	Race          map[string]string
	Rewrite       *rewrite.Stats
	GenStats      *rewrite.Stats
	Corpus        []CorpusPkg // regenerated corpus servers compiled into the csim binaries
	CorpusSkipped map[string]string
	CPlain, CRace string
	jobSeq        int
	mu            sync.Mutex
	routeMatchers map[string][]routeMatcher
}

// Worlds are the feature configurations the one world spec is regenerated in. The generated API is the
// same in both (the typed harness compiles against either); what differs is which code paths exist.
var Worlds = []struct{ Name, Config string }{
	{"a", "generator:\n  features:\n    enable: [\"ogen/unimplemented\"]\n"},
	{"b", "generator:\n  features:\n    enable: [\"client/request/validation\", \"server/response/validation\", \"client/request/options\"]\n    disable: [\"ogen/otel\"]\n"},
}

// NewEngine prepares everything. withRace also builds the race binary.
func NewEngine(id string, withRace bool) (*Engine, error) { return NewEngineCorpus(id, withRace, 0) }

// NewEngineCorpus additionally regenerates up to corpusLimit corpus servers (0 = none, < 0 = all that fit).
func NewEngineCorpus(id string, withRace bool, corpusLimit int) (*Engine, error) {
	s, err := build.NewScratch(id)
	if err != nil {
		return nil, err
	}
	excl := []string{"/examples", "/internal/integration", "/_logo"}
	if corpusLimit == 0 {
		excl = append(excl, "/_testdata")
	}
	if err := s.CopyRepo(excl...); err != nil {
		return nil, err
	}
	// 1. the plain CLI of the tree under test regenerates the world
	if err := s.BuildCLI("./cmd/ogen", "ogen", ""); err != nil {
		return nil, err
	}
	h := simbuild.HarnessDir(s)
	work := filepath.Join(s.Dir, "genwork")
	_ = os.MkdirAll(work, 0o755)
	spec, err := os.ReadFile(filepath.Join(build.VerifDir, "worlds", "x", "world.yml"))
	if err != nil {
		return nil, build.Toolf("%v", err)
	}
	_ = os.WriteFile(filepath.Join(work, "world.yml"), spec, 0o644)
	for _, w := range Worlds {
		target := filepath.Join(h, "xw"+w.Name, "api")
		if err := os.MkdirAll(target, 0o755); err != nil {
			return nil, build.Toolf("%v", err)
		}
		_ = os.WriteFile(filepath.Join(work, "cfg.yml"), []byte(w.Config), 0o644)
		r := s.Run(work, 0, nil, filepath.Join(s.Bin, "ogen"), "--config", "cfg.yml", "--target", target, "--package", "api", "--clean", "world.yml")
		if r.Err != nil || r.Exit != 0 {
			// The tree under test cannot generate the world: the exchange properties cannot be examined.
			return nil, build.Toolf("regenerating worlds/x/world.yml (configuration %s) with the tree's CLI failed (exit %d): %s", w.Name, r.Exit, tail(string(r.Stderr), 3000))
		}
	}
	var cpkgs []CorpusPkg
	cskipped := map[string]string{}
	if corpusLimit != 0 {
		list := corpusSpecs(s.Src, 60_000, max(corpusLimit, 0))
		nDerived := 0
		if corpusLimit < 0 {
			nDerived = 4
		}
		list = append(list, derivedSpecs(s, nDerived)...)
		if os.Getenv("VERIF_NO_MATRIX") == "" {
			list = append(list, matrixSpecs(s, corpusLimit < 0)...)
		}
		cpkgs, cskipped = prepareCorpus(s, list)
	}
	// 2. instrument ogen's own packages
	e := &Engine{S: s, Plain: map[string]string{}, Race: map[string]string{}, CorpusSkipped: cskipped}
	if e.Rewrite, err = simbuild.InstrumentOgen(s); err != nil {
		return nil, err
	}
	// 3. harness module with the typed world harness bound to each regenerated package
	if err := simbuild.PrepareHarness(s); err != nil {
		return nil, err
	}
	var patterns []string
	for _, w := range Worlds {
		dst := filepath.Join(h, "xsim"+w.Name)
		if err := copyDir(filepath.Join(simbuild.SimSrc(), "xsim"), dst); err != nil {
			return nil, build.Toolf("%v", err)
		}
		p := filepath.Join(dst, "world.go")
		b, err := os.ReadFile(p)
		if err != nil {
			return nil, build.Toolf("%v", err)
		}
		b = []byte(strings.ReplaceAll(string(b), "XSIM_API_IMPORT", "simh/xw"+w.Name+"/api"))
		if err := os.WriteFile(p, b, 0o644); err != nil {
			return nil, build.Toolf("%v", err)
		}
		patterns = append(patterns, "./xw"+w.Name+"/...")
	}
	if len(cpkgs) > 0 {
		// the corpus harness: links and transport of xsim plus the raw-request driver
		dst := filepath.Join(h, "csim")
		_ = os.MkdirAll(dst, 0o755)
		for _, f := range []string{"xsim/link.go", "xsim/transport.go", "csim/csim.go", "csim/typed.go", "csim/csim_test.go"} {
			b, err := os.ReadFile(filepath.Join(simbuild.SimSrc(), f))
			if err != nil {
				return nil, build.Toolf("%v", err)
			}
			if err := os.WriteFile(filepath.Join(dst, filepath.Base(f)), b, 0o644); err != nil {
				return nil, build.Toolf("%v", err)
			}
		}
		// packages that do not compile are dropped before the typed rewrite looks at them
		if e.Corpus, err = weedCorpus(s, cpkgs, cskipped); err != nil {
			return nil, err
		}
		if len(e.Corpus) > 0 {
			patterns = append(patterns, "./cx/...")
		}
	}
	// 4. instrument the regenerated packages with the same rules
	e.GenStats, err = rewrite.Typed(rewrite.Options{
		ModuleDir: h, Env: append(os.Environ(), s.Env()...), Patterns: patterns,
		SimrtPath: simbuild.SimrtPath, SimjxPath: simbuild.SimjxPath, R1: true, R2: true, R3: true, R5: true,
		R7: func(string) bool { return true },
	})
	if err != nil {
		return nil, build.Toolf("simrewrite of the regenerated world: %v", err)
	}
	var wg sync.WaitGroup
	var emu sync.Mutex
	var firstErr error
	if len(e.Corpus) > 0 {
		for _, race := range []bool{false, true} {
			if race && !withRace {
				continue
			}
			wg.Add(1)
			go func(race bool) {
				defer wg.Done()
				out := "csim.plain"
				if race {
					out = "csim.race"
				}
				bin, err := simbuild.BuildTest(s, "csim", out, race)
				emu.Lock()
				defer emu.Unlock()
				if err != nil && firstErr == nil {
					firstErr = err
				}
				if race {
					e.CRace = bin
				} else {
					e.CPlain = bin
				}
			}(race)
		}
	}
	for _, w := range Worlds {
		for _, race := range []bool{false, true} {
			if race && !withRace {
				continue
			}
			wg.Add(1)
			go func(name string, race bool) {
				defer wg.Done()
				out := "xsim" + name + ".plain"
				if race {
					out = "xsim" + name + ".race"
				}
				bin, err := simbuild.BuildTest(s, "xsim"+name, out, race)
				emu.Lock()
				defer emu.Unlock()
				if err != nil && firstErr == nil {
					firstErr = err
				}
				if race {
					e.Race[name] = bin
				} else {
					e.Plain[name] = bin
				}
			}(w.Name, race)
		}
	}
	wg.Wait()
	if firstErr != nil {
		return nil, firstErr
	}
	return e, nil
}

func copyDir(src, dst string) error {
	if err := os.MkdirAll(dst, 0o755); err != nil {
		return err
	}
	ents, err := os.ReadDir(src)
	if err != nil {
		return err
	}
	for _, en := range ents {
		if en.IsDir() {
			continue
		}
		b, err := os.ReadFile(filepath.Join(src, en.Name()))
		if err != nil {
			return err
		}
		if err := os.WriteFile(filepath.Join(dst, en.Name()), b, 0o644); err != nil {
			return err
		}
	}
	return nil
}

func tail(s string, n int) string {
	if len(s) > n {
		return s[len(s)-n:]
	}
	return s
}
