package xch

import (
	"encoding/json"
	"fmt"
	"os"
	"path/filepath"
	"strings"

	"verif/internal/build"
)

// Feature-matrix documents for the typed exchange (DESIGN.md 10.12). The property's quantifier names "every
// parameter location x style x explode x shape, every supported media type, every response code / pattern /
// default variant"; the repository's corpus and the hand-written world hold a sample of that product. These
// documents hold the product itself, one operation per cell, written out mechanically: a document is a pure
// function of its name (no seed enters), so what a run examines is known in advance and a failure is a fact
// about the tree, not about the draw. The schemas carry no pattern, bound or other constraint: every value of
// the harness's core domain is a value of the schema, so "core-domain values are always delivered" is demanded
// for every operation and every response variant of these documents by construction (no learned list).
//
// Cells that the generator under test does not implement are dropped by `ignore_not_implemented: all`, like in
// the corpus driver; an operation without a client method is a violation (typedcheck.go).

type mxObj = map[string]any

// mxPrim is one primitive schema. The name is also the parameter/member name: the value generator takes hints
// from names (v4/v6 for addresses, nano for the range of instants).
type mxPrim struct {
	Name   string
	Schema mxObj
}

func mxPrims() []mxPrim {
	s := func(t, f string) mxObj {
		o := mxObj{"type": t}
		if f != "" {
			o["format"] = f
		}
		return o
	}
	return []mxPrim{
		{"str", s("string", "")},
		{"i32", s("integer", "int32")},
		{"i64", s("integer", "int64")},
		{"int", s("integer", "")},
		{"i8", s("integer", "int8")},
		{"i16", s("integer", "int16")},
		{"u8", s("integer", "uint8")},
		{"u32", s("integer", "uint32")},
		{"u64", s("integer", "uint64")},
		{"f32", s("number", "float")},
		{"f64", s("number", "double")},
		{"num", s("number", "")},
		{"flag", s("boolean", "")},
		{"dt", s("string", "date-time")},
		{"date", s("string", "date")},
		{"tod", s("string", "time")},
		{"uuid", s("string", "uuid")},
		{"dur", s("string", "duration")},
		{"ipv4", s("string", "ipv4")},
		{"ipv6", s("string", "ipv6")},
		{"link", s("string", "uri")},
		{"unixsec", s("integer", "unix")},
		{"unixmilli", s("integer", "unix-milli")},
		{"sint64", s("string", "int64")},
		{"sf64", s("string", "float64")},
		{"blob", s("string", "byte")},
		{"kind", mxObj{"type": "string", "enum": []any{"alpha", "beta", "gamma"}}},
		{"level", mxObj{"type": "integer", "enum": []any{1, 2, 3}}},
	}
}

// mxElems are the element types of arrays (a subset: an array of every primitive would only repeat the scalar codecs).
func mxElems() []mxPrim {
	var out []mxPrim
	want := map[string]bool{"str": true, "i32": true, "i64": true, "f64": true, "flag": true, "dt": true, "uuid": true, "kind": true, "u64": true, "date": true}
	for _, p := range mxPrims() {
		if want[p.Name] {
			out = append(out, p)
		}
	}
	return out
}

// mxObjectSchema: an object parameter. Two object parameters of one operation get different member names
// (prefix): exploded styles write the members as if they were parameters of their own, so equal names in two
// objects would make the document itself ambiguous. noDot leaves out the member whose text contains a '.'
// (label style separates with '.').
func mxObjectSchema(required bool, prefix string, noDot bool) mxObj {
	props := mxObj{}
	for _, p := range mxPrims() {
		switch p.Name {
		case "f64":
			if noDot {
				continue
			}
			fallthrough
		case "str", "i64", "flag", "date", "kind", "uuid":
			props[prefix+p.Name] = p.Schema
		}
	}
	o := mxObj{"type": "object", "properties": props}
	if required {
		o["required"] = []any{prefix + "str", prefix + "i64"}
	}
	return o
}

// mxDotted: the text of a value of this type contains (or may contain) a '.'.
var mxDotted = map[string]bool{"f32": true, "f64": true, "num": true, "sf64": true, "ipv4": true, "link": true}

func mxOK() mxObj {
	return mxObj{"200": mxObj{"description": "ok", "content": mxObj{"application/json": mxObj{"schema": mxObj{"type": "object", "required": []any{"ok"}, "properties": mxObj{"ok": mxObj{"type": "boolean"}}}}}}}
}

func mxDoc(title string, paths mxObj, components mxObj) mxObj {
	d := mxObj{"openapi": "3.0.3", "info": mxObj{"title": title, "version": "1.0.0"}, "paths": paths}
	if components != nil {
		d["components"] = components
	}
	return d
}

// mxParams: one operation per (location, style, explode, shape) cell.
func mxParams() mxObj {
	paths := mxObj{}
	type cell struct {
		in, style string
		explode   bool
	}
	cells := []cell{
		{"path", "simple", false}, {"path", "simple", true}, {"path", "label", false}, {"path", "label", true}, {"path", "matrix", false}, {"path", "matrix", true},
		{"query", "form", false}, {"query", "form", true}, {"query", "spaceDelimited", false}, {"query", "spaceDelimited", true}, {"query", "pipeDelimited", false}, {"query", "pipeDelimited", true}, {"query", "deepObject", true},
		{"header", "simple", false}, {"header", "simple", true},
		{"cookie", "form", false}, {"cookie", "form", true},
	}
	for _, c := range cells {
		for _, shape := range []string{"prim", "array", "object"} {
			switch {
			case (c.style == "spaceDelimited" || c.style == "pipeDelimited") && shape != "array":
				continue
			case c.style == "deepObject" && shape != "object":
				continue
			case c.in == "cookie" && c.explode && shape != "prim":
				continue // the document parser refuses the combination (not a "not implemented": an invalid document)
			}
			var schemas []mxPrim
			switch shape {
			case "prim":
				schemas = mxPrims()
			case "array":
				for _, e := range mxElems() {
					if c.style == "label" && mxDotted[e.Name] {
						continue // a value containing the style's delimiter is outside the core domain
					}
					schemas = append(schemas, mxPrim{e.Name + "s", mxObj{"type": "array", "items": e.Schema}})
				}
			case "object":
				schemas = []mxPrim{{"obj", mxObjectSchema(true, "", c.style == "label")}, {"opt", mxObjectSchema(c.in == "path", "o", c.style == "label")}} // (a path segment cannot be empty: there every object has required members)
			}
			if c.in == "header" {
				// a header carries text: arbitrary bytes (format byte is sent as it is, not as base64) are outside the core domain
				var keep []mxPrim
				for _, sc := range schemas {
					if sc.Name != "blob" {
						keep = append(keep, sc)
					}
				}
				schemas = keep
			}
			ex := "n"
			if c.explode {
				ex = "x"
			}
			name := fmt.Sprintf("%s_%s_%s_%s", c.in, strings.ToLower(c.style), ex, shape)
			p := "/" + name
			var params []any
			for i, sc := range schemas {
				pn := sc.Name
				if c.in == "header" {
					pn = "X-" + strings.ToUpper(pn[:1]) + pn[1:]
				}
				par := mxObj{"name": pn, "in": c.in, "style": c.style, "explode": c.explode, "schema": sc.Schema}
				switch {
				case c.in == "path":
					par["required"] = true
					p += "/{" + pn + "}"
				case i%3 != 2:
					par["required"] = true // two of three are required, the third may be left out by the caller
				}
				params = append(params, par)
			}
			paths[p] = mxObj{"get": mxObj{"operationId": name, "parameters": params, "responses": mxOK()}}
		}
	}
	// deepObject parameters with members the schema does not declare one by one
	paths["/query_deepobject_x_map"] = mxObj{"get": mxObj{"operationId": "query_deepobject_x_map", "responses": mxOK(), "parameters": []any{
		mxObj{"name": "extra", "in": "query", "style": "deepObject", "explode": true, "required": true, "schema": mxObj{"type": "object", "required": []any{"name"}, "properties": mxObj{"name": mxObj{"type": "string"}, "rank": mxObj{"type": "integer", "format": "int32"}}, "additionalProperties": mxObj{"type": "string"}}},
		mxObj{"name": "nums", "in": "query", "style": "deepObject", "explode": true, "schema": mxObj{"type": "object", "additionalProperties": mxObj{"type": "integer", "format": "int64"}}},
		mxObj{"name": "flags", "in": "query", "style": "deepObject", "explode": true, "schema": mxObj{"type": "object", "additionalProperties": mxObj{"type": "boolean"}}},
	}}}
	// static segments next to a templated sibling (with and without children of their own)
	strParam := func(n string) mxObj {
		return mxObj{"name": n, "in": "path", "required": true, "schema": mxObj{"type": "string"}}
	}
	paths["/sib/me"] = mxObj{"get": mxObj{"operationId": "sib_me", "responses": mxOK()}}
	paths["/sib/{login}"] = mxObj{"get": mxObj{"operationId": "sib_login", "parameters": []any{strParam("login")}, "responses": mxOK()}}
	paths["/sib/{login}/repos"] = mxObj{"get": mxObj{"operationId": "sib_login_repos", "parameters": []any{strParam("login")}, "responses": mxOK()}}
	paths["/sib/all/repos"] = mxObj{"get": mxObj{"operationId": "sib_all_repos", "responses": mxOK()}}
	paths["/sib/{login}/repos/{repo}"] = mxObj{"get": mxObj{"operationId": "sib_repo", "parameters": []any{strParam("login"), strParam("repo")}, "responses": mxOK()}}
	paths["/sib/{login}/repos/new"] = mxObj{"get": mxObj{"operationId": "sib_repo_new", "parameters": []any{strParam("login")}, "responses": mxOK()}}
	// defaults: absent optional parameters arrive as their default
	var dparams []any
	for _, d := range []struct {
		n string
		s mxObj
	}{
		{"dstr", mxObj{"type": "string", "default": "fallback"}},
		{"dint", mxObj{"type": "integer", "format": "int32", "default": 42}},
		{"dnum", mxObj{"type": "number", "default": 2.5}},
		{"dflag", mxObj{"type": "boolean", "default": true}},
		{"dkind", mxObj{"type": "string", "enum": []any{"alpha", "beta"}, "default": "beta"}},
		{"dlist", mxObj{"type": "array", "items": mxObj{"type": "string"}, "default": []any{"one", "two"}}},
	} {
		for _, in := range []string{"query", "header", "cookie"} {
			n := d.n
			if in == "cookie" && d.n == "dlist" {
				continue // a cookie's default style is form, exploded: the document parser refuses arrays there
			}
			if in == "header" {
				n = "X-D" + d.n[1:]
			} else if in == "cookie" {
				n = "c" + d.n
			}
			dparams = append(dparams, mxObj{"name": n, "in": in, "schema": d.s})
		}
	}
	paths["/defaults"] = mxObj{"get": mxObj{"operationId": "param_defaults", "parameters": dparams, "responses": mxOK()}}
	return mxDoc("matrix: parameters", paths, nil)
}

// mxBodyObject: a JSON object with every primitive as a required member, as an optional member, as a nullable
// member, in arrays, in a map, and nested.
func mxBodyComponents() mxObj {
	all, opt, nul, arr := mxObj{}, mxObj{}, mxObj{}, mxObj{}
	var req []any
	for _, p := range mxPrims() {
		all[p.Name] = p.Schema
		req = append(req, p.Name)
		opt[p.Name] = p.Schema
		n := mxObj{}
		for k, v := range p.Schema {
			n[k] = v
		}
		n["nullable"] = true
		if _, isEnum := n["enum"]; !isEnum {
			nul[p.Name] = n
		}
		arr[p.Name+"s"] = mxObj{"type": "array", "items": p.Schema}
	}
	return mxObj{"schemas": mxObj{
		"AllRequired": mxObj{"type": "object", "required": req, "properties": all},
		"AllOptional": mxObj{"type": "object", "properties": opt},
		"AllNullable": mxObj{"type": "object", "properties": nul},
		"AllArrays":   mxObj{"type": "object", "properties": arr},
		"Nested": mxObj{"type": "object", "required": []any{"id"}, "properties": mxObj{
			"id":       mxObj{"type": "string"},
			"req":      mxObj{"$ref": "#/components/schemas/AllRequired"},
			"opt":      mxObj{"$ref": "#/components/schemas/AllOptional"},
			"children": mxObj{"type": "array", "items": mxObj{"$ref": "#/components/schemas/Nested"}},
			"byName":   mxObj{"type": "object", "additionalProperties": mxObj{"$ref": "#/components/schemas/AllOptional"}},
			"matrix":   mxObj{"type": "array", "items": mxObj{"type": "array", "items": mxObj{"type": "integer", "format": "int64"}}},
			"nullArr":  mxObj{"type": "array", "nullable": true, "items": mxObj{"type": "string"}},
			"nullObj":  mxObj{"nullable": true, "allOf": []any{mxObj{"$ref": "#/components/schemas/Small"}}},
			"counts":   mxObj{"type": "object", "additionalProperties": mxObj{"type": "integer", "format": "int32"}},
		}},
		"Small": mxObj{"type": "object", "required": []any{"str"}, "properties": mxObj{"str": mxObj{"type": "string"}, "i64": mxObj{"type": "integer", "format": "int64"}, "flag": mxObj{"type": "boolean"}, "f64": mxObj{"type": "number", "format": "double"}, "kind": mxObj{"type": "string", "enum": []any{"alpha", "beta", "gamma"}}}},
		"Cat":   mxObj{"type": "object", "required": []any{"species", "lives"}, "properties": mxObj{"species": mxObj{"type": "string"}, "lives": mxObj{"type": "integer"}, "name": mxObj{"type": "string"}}},
		"Dog":   mxObj{"type": "object", "required": []any{"species", "bark"}, "properties": mxObj{"species": mxObj{"type": "string"}, "bark": mxObj{"type": "string"}, "name": mxObj{"type": "string"}}},
		"Pet": mxObj{"oneOf": []any{mxObj{"$ref": "#/components/schemas/Cat"}, mxObj{"$ref": "#/components/schemas/Dog"}},
			"discriminator": mxObj{"propertyName": "species", "mapping": mxObj{"cat": "#/components/schemas/Cat", "dog": "#/components/schemas/Dog"}}},
		"Scalar": mxObj{"oneOf": []any{mxObj{"type": "string"}, mxObj{"type": "integer"}, mxObj{"type": "boolean"}, mxObj{"type": "array", "items": mxObj{"type": "string"}}}},
	}}
}

func mxRef(n string) mxObj { return mxObj{"$ref": "#/components/schemas/" + n} }

// mxBodies: one operation per (media type, body shape[, encoding]) cell; the answer echoes a small JSON object.
func mxBodies() mxObj {
	paths := mxObj{}
	add := func(name string, body mxObj) {
		paths["/"+name] = mxObj{"post": mxObj{"operationId": name, "requestBody": body, "responses": mxOK()}}
	}
	content := func(ct string, schema mxObj) mxObj { return mxObj{ct: mxObj{"schema": schema}} }
	for _, n := range []string{"AllRequired", "AllOptional", "AllNullable", "AllArrays", "Nested", "Pet", "Scalar"} {
		add("json_"+strings.ToLower(n), mxObj{"required": true, "content": content("application/json", mxRef(n))})
	}
	add("json_optional_body", mxObj{"required": false, "content": content("application/json", mxRef("Small"))})
	add("json_array_body", mxObj{"required": true, "content": content("application/json", mxObj{"type": "array", "items": mxRef("Small")})})
	add("json_map_body", mxObj{"required": true, "content": content("application/json", mxObj{"type": "object", "additionalProperties": mxRef("Small")})})
	add("json_string_body", mxObj{"required": true, "content": content("application/json", mxObj{"type": "string"})})
	add("json_number_body", mxObj{"required": true, "content": content("application/json", mxObj{"type": "number", "format": "double"})})
	add("json_nullable_body", mxObj{"required": true, "content": content("application/json", mxObj{"nullable": true, "allOf": []any{mxRef("Small")}})})
	add("text_body", mxObj{"required": true, "content": content("text/plain", mxObj{"type": "string"})})
	add("octet_body", mxObj{"required": true, "content": content("application/octet-stream", mxObj{"type": "string", "format": "binary"})})
	add("octet_optional_body", mxObj{"required": false, "content": content("application/octet-stream", mxObj{"type": "string", "format": "binary"})})
	add("multi_type_body", mxObj{"required": true, "content": mxObj{
		"application/json":                  mxObj{"schema": mxRef("Small")},
		"application/x-www-form-urlencoded": mxObj{"schema": mxRef("Small")},
		"multipart/form-data":               mxObj{"schema": mxRef("Small")},
		"text/plain":                        mxObj{"schema": mxObj{"type": "string"}},
		"application/octet-stream":          mxObj{"schema": mxObj{"type": "string", "format": "binary"}},
		"application/merge-patch+json":      mxObj{"schema": mxObj{"type": "object", "properties": mxObj{"patch": mxObj{"type": "string"}, "rev": mxObj{"type": "integer"}}}},
		"application/hal+json":              mxObj{"schema": mxObj{"type": "object", "properties": mxObj{"hal": mxObj{"type": "string"}}}},
	}})
	// form and multipart: every primitive as a field, arrays, and object members under each encoding
	formProps := mxObj{}
	var formReq []any
	for i, p := range mxPrims() {
		if p.Name == "blob" {
			continue
		}
		formProps[p.Name] = p.Schema
		if i%2 == 0 {
			formReq = append(formReq, p.Name)
		}
	}
	for _, e := range mxElems() {
		formProps[e.Name+"s"] = mxObj{"type": "array", "items": e.Schema}
	}
	for _, ct := range []string{"application/x-www-form-urlencoded", "multipart/form-data"} {
		short := map[string]string{"application/x-www-form-urlencoded": "form", "multipart/form-data": "multipart"}[ct]
		add(short+"_fields", mxObj{"required": true, "content": content(ct, mxObj{"type": "object", "required": formReq, "properties": formProps})})
		type enc struct {
			name, style string
			explode     bool
		}
		for _, en := range []enc{{"form_x", "form", true}, {"form_n", "form", false}, {"deep", "deepObject", true}, {"space_n", "spaceDelimited", false}, {"pipe_n", "pipeDelimited", false}} {
			props := mxObj{"id": mxObj{"type": "string"}}
			encoding := mxObj{}
			if en.style == "spaceDelimited" || en.style == "pipeDelimited" {
				props["list"] = mxObj{"type": "array", "items": mxObj{"type": "string"}}
				props["nums"] = mxObj{"type": "array", "items": mxObj{"type": "integer", "format": "int64"}}
				encoding["list"] = mxObj{"style": en.style, "explode": en.explode}
				encoding["nums"] = mxObj{"style": en.style, "explode": en.explode}
			} else {
				props["obj"] = mxRef("Small")
				props["list"] = mxObj{"type": "array", "items": mxObj{"type": "string"}}
				encoding["obj"] = mxObj{"style": en.style, "explode": en.explode}
				if en.style == "form" {
					encoding["list"] = mxObj{"style": en.style, "explode": en.explode}
				}
			}
			add(short+"_enc_"+en.name, mxObj{"required": true, "content": mxObj{ct: mxObj{"schema": mxObj{"type": "object", "required": []any{"id"}, "properties": props}, "encoding": encoding}}})
		}
		// (a form member that is a map - additionalProperties next to or instead of properties - makes the generator
		// of the pinned tree crash with a nil dereference in ir.(*Type).AddFeature: C11's business, left out here)
		// a member sent as JSON
		add(short+"_json_member", mxObj{"required": true, "content": mxObj{ct: mxObj{
			"schema":   mxObj{"type": "object", "required": []any{"id", "doc"}, "properties": mxObj{"id": mxObj{"type": "string"}, "doc": mxRef("Small"), "more": mxRef("Small")}},
			"encoding": mxObj{"doc": mxObj{"contentType": "application/json"}, "more": mxObj{"contentType": "application/json"}},
		}}})
	}
	add("multipart_files", mxObj{"required": true, "content": content("multipart/form-data", mxObj{"type": "object", "required": []any{"file"}, "properties": mxObj{
		"file":     mxObj{"type": "string", "format": "binary"},
		"optional": mxObj{"type": "string", "format": "binary"},
		"files":    mxObj{"type": "array", "items": mxObj{"type": "string", "format": "binary"}},
		"note":     mxObj{"type": "string"},
	}})})
	return mxDoc("matrix: request bodies", paths, mxBodyComponents())
}

// mxResponses: one operation per response structure; the harness's handler returns every variant in turn.
func mxResponses() mxObj {
	paths := mxObj{}
	js := func(schema mxObj) mxObj { return mxObj{"application/json": mxObj{"schema": schema}} }
	hdrs := func(names ...string) mxObj {
		h := mxObj{}
		byName := map[string]mxObj{}
		for _, p := range mxPrims() {
			byName[p.Name] = p.Schema
		}
		for i, n := range names {
			var sc mxObj
			if strings.HasSuffix(n, "s") && byName[strings.TrimSuffix(n, "s")] != nil {
				sc = mxObj{"type": "array", "items": byName[strings.TrimSuffix(n, "s")]}
			} else {
				sc = byName[n]
			}
			h["X-"+strings.ToUpper(n[:1])+n[1:]] = mxObj{"required": i%2 == 0, "schema": sc}
		}
		return h
	}
	add := func(name string, responses mxObj) {
		paths["/"+name] = mxObj{"get": mxObj{"operationId": name, "responses": responses}}
	}
	add("codes", mxObj{
		"200": mxObj{"description": "ok", "content": js(mxRef("Small"))},
		"201": mxObj{"description": "created", "content": js(mxRef("Small"))},
		"202": mxObj{"description": "accepted"},
		"204": mxObj{"description": "nothing"},
		"400": mxObj{"description": "bad", "content": js(mxRef("Problem"))},
		"404": mxObj{"description": "missing", "content": js(mxRef("Problem"))},
		"500": mxObj{"description": "broken", "content": mxObj{"text/plain": mxObj{"schema": mxObj{"type": "string"}}}},
	})
	// (the harness chooses the status code of a pattern variant from the class named in the Go type's name, so the
	// schemas of pattern responses carry their class in their name)
	add("patterns", mxObj{
		"2XX":     mxObj{"description": "ok", "content": js(mxRef("Ok2XX"))},
		"4XX":     mxObj{"description": "bad", "content": js(mxRef("Bad4XX"))},
		"5XX":     mxObj{"description": "broken", "content": js(mxRef("Broken5XX")), "headers": hdrs("i32")},
		"default": mxObj{"description": "other", "content": js(mxRef("Problem"))},
	})
	add("redirects", mxObj{
		"3XX":     mxObj{"description": "elsewhere", "headers": hdrs("link")},
		"default": mxObj{"description": "other", "content": js(mxRef("Problem"))},
	})
	add("code_and_pattern", mxObj{
		"200": mxObj{"description": "ok", "content": js(mxRef("Small"))},
		"2XX": mxObj{"description": "other ok", "content": js(mxRef("Other2XX"))},
		"404": mxObj{"description": "missing"},
		"4XX": mxObj{"description": "bad", "content": js(mxRef("Other4XX"))},
	})
	add("default_only", mxObj{"default": mxObj{"description": "anything", "content": js(mxRef("Small"))}})
	all := []string{}
	for _, p := range mxPrims() {
		if p.Name != "blob" {
			all = append(all, p.Name)
		}
	}
	// (responses that carry headers get a schema of their own: on the pinned tree two responses that share a
	// component schema under different header sets generate a package that does not compile - C02's business)
	add("headers_prims", mxObj{"200": mxObj{"description": "ok", "headers": hdrs(all...), "content": js(mxRef("SmallP"))}})
	add("headers_arrays", mxObj{"200": mxObj{"description": "ok", "headers": hdrs("strs", "i32s", "i64s", "f64s", "flags", "dts", "uuids", "kinds"), "content": js(mxRef("SmallA"))}})
	add("headers_no_content", mxObj{"204": mxObj{"description": "nothing", "headers": hdrs("str", "i64", "dt", "strs")}, "404": mxObj{"description": "missing", "headers": hdrs("str")}})
	add("media_types", mxObj{"200": mxObj{"description": "ok", "content": mxObj{
		"application/json":         mxObj{"schema": mxRef("SmallM")},
		"text/plain":               mxObj{"schema": mxObj{"type": "string"}},
		"application/octet-stream": mxObj{"schema": mxObj{"type": "string", "format": "binary"}},
		// structured-syntax JSON types (read as JSON through content_type_aliases of the matrix configuration), one
		// that sorts before application/json and two that sort after it; their schemas have optional members only
		"application/hal+json":     mxObj{"schema": mxRef("LooseA")},
		"application/problem+json": mxObj{"schema": mxRef("LooseB")},
		"application/vnd.api+json": mxObj{"schema": mxRef("LooseC")},
	}, "headers": hdrs("str", "i64")}})
	add("stream_json", mxObj{"200": mxObj{"description": "ok", "content": js(mxObj{"type": "array", "items": mxRef("Small")})}})
	add("primitive_bodies", mxObj{
		"200": mxObj{"description": "text", "content": js(mxObj{"type": "string"})},
		"201": mxObj{"description": "number", "content": js(mxObj{"type": "number", "format": "double"})},
		"202": mxObj{"description": "list", "content": js(mxObj{"type": "array", "items": mxObj{"type": "integer", "format": "int64"}})},
		"203": mxObj{"description": "flag", "content": js(mxObj{"type": "boolean"})},
		"206": mxObj{"description": "map", "content": js(mxObj{"type": "object", "additionalProperties": mxObj{"type": "string"}})},
	})
	add("nullable_and_sum", mxObj{
		"200": mxObj{"description": "nullable", "content": js(mxObj{"nullable": true, "allOf": []any{mxRef("Small")}})},
		"201": mxObj{"description": "sum", "content": js(mxObj{"oneOf": []any{mxRef("Small"), mxObj{"type": "string"}, mxObj{"type": "array", "items": mxObj{"type": "integer"}}}})},
	})
	small := func() mxObj {
		return mxObj{"type": "object", "required": []any{"str"}, "properties": mxObj{"str": mxObj{"type": "string"}, "i64": mxObj{"type": "integer", "format": "int64"}, "flag": mxObj{"type": "boolean"}}}
	}
	comps := mxObj{"schemas": mxObj{
		"LooseA": mxObj{"type": "object", "properties": mxObj{"a": mxObj{"type": "string"}, "n": mxObj{"type": "integer"}}},
		"LooseB": mxObj{"type": "object", "properties": mxObj{"b": mxObj{"type": "string"}, "status": mxObj{"type": "integer"}}},
		"LooseC": mxObj{"type": "object", "properties": mxObj{"c": mxObj{"type": "string"}, "flag": mxObj{"type": "boolean"}}},
		"SmallP": small(), "SmallA": small(), "SmallM": small(), "Ok2XX": small(), "Bad4XX": small(), "Broken5XX": small(), "Other2XX": small(), "Other4XX": small(),
		"Small":   mxObj{"type": "object", "required": []any{"str"}, "properties": mxObj{"str": mxObj{"type": "string"}, "i64": mxObj{"type": "integer", "format": "int64"}, "flag": mxObj{"type": "boolean"}, "f64": mxObj{"type": "number", "format": "double"}, "when": mxObj{"type": "string", "format": "date-time"}, "tags": mxObj{"type": "array", "items": mxObj{"type": "string"}}}},
		"Problem": mxObj{"type": "object", "required": []any{"code", "message"}, "properties": mxObj{"code": mxObj{"type": "integer", "format": "int32"}, "message": mxObj{"type": "string"}, "details": mxObj{"type": "object", "additionalProperties": mxObj{"type": "string"}}}},
	}}
	return mxDoc("matrix: responses", paths, comps)
}

// mxSecurity: one operation per security structure (scheme kind and location, conjunction, alternatives, optional,
// none, inherited from the document).
func mxSecurity(commonError bool) mxObj {
	paths := mxObj{}
	add := func(name string, sec any) {
		resp := mxOK()
		if commonError {
			// every operation has the same default response: the generator's "convenient errors" (Handler.NewError)
			resp["default"] = mxObj{"$ref": "#/components/responses/Error"}
		}
		op := mxObj{"operationId": name, "responses": resp, "parameters": []any{
			mxObj{"name": "q", "in": "query", "required": true, "schema": mxObj{"type": "string"}},
			mxObj{"name": "X-Note", "in": "header", "schema": mxObj{"type": "string"}},
		}}
		if sec != nil {
			op["security"] = sec
		}
		paths["/"+name] = mxObj{"get": op}
	}
	one := func(n string, scopes ...any) []any {
		if scopes == nil {
			scopes = []any{}
		}
		return []any{mxObj{n: scopes}}
	}
	add("sec_header", one("keyHeader"))
	add("sec_query", one("keyQuery"))
	add("sec_cookie", one("keyCookie"))
	add("sec_basic", one("basic"))
	add("sec_bearer", one("bearer"))
	add("sec_oauth", one("oauth", "read", "write"))
	add("sec_and", []any{mxObj{"keyHeader": []any{}, "bearer": []any{}}})
	add("sec_and_three", []any{mxObj{"keyHeader": []any{}, "keyQuery": []any{}, "keyCookie": []any{}}})
	add("sec_or", []any{mxObj{"keyHeader": []any{}}, mxObj{"basic": []any{}}})
	add("sec_and_or", []any{mxObj{"keyHeader": []any{}, "keyQuery": []any{}}, mxObj{"bearer": []any{}}})
	add("sec_or_shared", []any{mxObj{"keyHeader": []any{}, "basic": []any{}}, mxObj{"keyHeader": []any{}, "bearer": []any{}}})
	add("sec_optional", []any{mxObj{}, mxObj{"bearer": []any{}}})
	add("sec_none", []any{})
	add("sec_inherited", nil)
	d := mxDoc("matrix: security", paths, mxObj{"securitySchemes": mxObj{
		"keyHeader": mxObj{"type": "apiKey", "in": "header", "name": "X-Api-Key"},
		"keyQuery":  mxObj{"type": "apiKey", "in": "query", "name": "api_key"},
		"keyCookie": mxObj{"type": "apiKey", "in": "cookie", "name": "api_session"},
		"basic":     mxObj{"type": "http", "scheme": "basic"},
		"bearer":    mxObj{"type": "http", "scheme": "bearer"},
		"oauth":     mxObj{"type": "oauth2", "flows": mxObj{"clientCredentials": mxObj{"tokenUrl": "https://auth.sim.test/token", "scopes": mxObj{"read": "read things", "write": "write things"}}}},
	}})
	d["security"] = []any{mxObj{"bearer": []any{}}}
	if commonError {
		comps := d["components"].(mxObj)
		comps["responses"] = mxObj{"Error": mxObj{"description": "error", "content": mxObj{"application/json": mxObj{"schema": mxObj{"$ref": "#/components/schemas/Error"}}}}}
		comps["schemas"] = mxObj{"Error": mxObj{"type": "object", "required": []any{"message"}, "properties": mxObj{"message": mxObj{"type": "string"}, "code": mxObj{"type": "integer"}}}}
	}
	return d
}

// mxWebhooks: webhooks (requests the generated WebhookClient sends to a target URL, served by the generated
// WebhookServer) with parameters, bodies of several media types and several response variants; one path operation,
// because a document needs one.
func mxWebhooks() mxObj {
	small := mxObj{"type": "object", "required": []any{"id"}, "properties": mxObj{"id": mxObj{"type": "string"}, "n": mxObj{"type": "integer", "format": "int64"}, "when": mxObj{"type": "string", "format": "date-time"}, "tags": mxObj{"type": "array", "items": mxObj{"type": "string"}}}}
	js := func(schema mxObj) mxObj { return mxObj{"application/json": mxObj{"schema": schema}} }
	d := mxDoc("matrix: webhooks", mxObj{"/ping": mxObj{"get": mxObj{"operationId": "ping", "responses": mxOK()}}}, mxObj{"schemas": mxObj{"Event": small}})
	ref := mxObj{"$ref": "#/components/schemas/Event"}
	d["webhooks"] = mxObj{
		"created": mxObj{"post": mxObj{"operationId": "hook_created", "requestBody": mxObj{"required": true, "content": js(ref)}, "responses": mxOK()}},
		"changed": mxObj{"put": mxObj{"operationId": "hook_changed", "parameters": []any{
			mxObj{"name": "X-Delivery", "in": "header", "required": true, "schema": mxObj{"type": "string", "format": "uuid"}},
			mxObj{"name": "attempt", "in": "query", "schema": mxObj{"type": "integer", "format": "int32"}},
			mxObj{"name": "kinds", "in": "query", "schema": mxObj{"type": "array", "items": mxObj{"type": "string"}}},
		}, "requestBody": mxObj{"required": true, "content": js(mxObj{"type": "array", "items": ref})}, "responses": mxObj{
			"200": mxObj{"description": "ok", "content": js(ref)},
			"202": mxObj{"description": "later"},
			"4XX": mxObj{"description": "bad", "content": js(mxObj{"type": "object", "required": []any{"message"}, "properties": mxObj{"message": mxObj{"type": "string"}}})},
		}}},
		"removed": mxObj{"delete": mxObj{"operationId": "hook_removed", "parameters": []any{
			mxObj{"name": "id", "in": "query", "required": true, "schema": mxObj{"type": "string"}},
		}, "responses": mxObj{"204": mxObj{"description": "gone"}}}},
		"upload": mxObj{"post": mxObj{"operationId": "hook_upload", "requestBody": mxObj{"required": true, "content": mxObj{
			"application/octet-stream":          mxObj{"schema": mxObj{"type": "string", "format": "binary"}},
			"application/x-www-form-urlencoded": mxObj{"schema": mxObj{"type": "object", "required": []any{"id"}, "properties": mxObj{"id": mxObj{"type": "string"}, "n": mxObj{"type": "integer"}}}},
		}}, "responses": mxOK()}},
	}
	d["openapi"] = "3.1.0"
	return d
}

// matrixSpecs writes the matrix documents into the scratch directory and returns their paths.
func matrixSpecs(s *build.Scratch, all bool) []string {
	_ = all
	return WriteMatrix(filepath.Join(s.Dir, "genwork", "matrix"))
}

// WriteMatrix writes the matrix documents to dir.
func WriteMatrix(dir string) []string {
	_ = os.MkdirAll(dir, 0o755)
	docs := []struct {
		name string
		doc  mxObj
	}{{"mx_params", mxParams()}, {"mx_bodies", mxBodies()}, {"mx_responses", mxResponses()}, {"mx_security", mxSecurity(false)}, {"mx_secerr", mxSecurity(true)}, {"mx_webhooks", mxWebhooks()}}
	var out []string
	for _, d := range docs {
		b, err := json.MarshalIndent(d.doc, "", " ")
		if err != nil {
			continue
		}
		// each document twice: the second copy (name ending in _b) is generated in feature configuration b
		for _, suffix := range []string{"", "_b"} {
			p := filepath.Join(dir, d.name+suffix+".json")
			if os.WriteFile(p, b, 0o644) == nil {
				out = append(out, p)
			}
		}
	}
	return out
}

// matrixConfigB: the second feature configuration of the matrix documents: the client validates requests, the server
// validates responses, calls take request options, security sources may be re-entered, no OpenTelemetry.
const matrixConfigB = matrixConfig + "  features:\n    enable: [\"client/request/validation\", \"server/response/validation\", \"client/request/options\", \"client/security/reentrant\"]\n    disable: [\"ogen/otel\"]\n"

// matrixConfig is the generator configuration of the matrix documents: the corpus configuration plus aliases that
// make structured-syntax JSON media types readable as JSON.
const matrixConfig = corpusConfig + "  content_type_aliases:\n    application/problem+json: application/json\n    application/hal+json: application/json\n    application/vnd.api+json: application/json\n    application/merge-patch+json: application/json\n"

// isMatrix: the package was generated from a matrix document (delivery is demanded by construction).
func isMatrix(p CorpusPkg) bool { return strings.HasPrefix(specKey(p.Spec), "derived:mx_") }
