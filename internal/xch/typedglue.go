package xch

import (
	"fmt"
	"go/ast"
	"go/parser"
	"go/token"
	"os"
	"path/filepath"
	"regexp"
	"sort"
	"strconv"
	"strings"
)

// Typed glue for the reflective exchange harness (simsrc/csim/typed.go): a generated package gets a file
// zz_sim_typed.go with
//   - a Handler whose every method hands its arguments to one callback and returns what the callback put
//     into the result variable (signatures are copied from the Handler interface),
//   - a SecuritySource whose methods return values filled by a callback,
//   - the table of concrete types behind every marker interface (request and response sums),
//   - a constructor returning the server and the client as plain values.
//
// Nothing here knows an operation by name: the harness works on the method sets by reflection.

type typedInfo struct {
	Ops []string // Handler methods (operations), in source order
}

func glueTyped(dir string) (*typedInfo, error) {
	fset := token.NewFileSet()
	type method struct{ name, params, results, call string }
	var handler, source, whHandler []method
	whOps := map[string]string{} // webhook operation -> webhook name (from the generated router)
	hasWHServer, hasWHClient, whServerSec, whClientSec := false, false, false, false
	var newErrorSig string
	ifaces := map[string]string{}  // marker method -> interface name
	impls := map[string][]string{} // marker method -> receiver type expressions
	hasNewClient, clientSec, serverSec := false, false, false
	imports := map[string]string{} // package name -> import path, from the files that declare the interfaces
	ents, _ := os.ReadDir(dir)
	for _, e := range ents {
		if !strings.HasSuffix(e.Name(), ".go") || strings.HasSuffix(e.Name(), "_test.go") || strings.HasPrefix(e.Name(), "zz_sim") {
			continue
		}
		p := filepath.Join(dir, e.Name())
		src, err := os.ReadFile(p)
		if err != nil {
			return nil, err
		}
		f, err := parser.ParseFile(fset, p, src, 0)
		if err != nil {
			return nil, err
		}
		text := func(n ast.Node) string {
			return string(src[fset.Position(n.Pos()).Offset:fset.Position(n.End()).Offset])
		}
		for _, d := range f.Decls {
			switch x := d.(type) {
			case *ast.FuncDecl:
				if x.Recv == nil {
					if x.Name.Name == "NewClient" {
						hasNewClient = true
						for _, p := range x.Type.Params.List {
							if id, ok := p.Type.(*ast.Ident); ok && id.Name == "SecuritySource" {
								clientSec = true
							}
						}
					}
					if x.Name.Name == "NewWebhookServer" {
						hasWHServer = true
						for _, p := range x.Type.Params.List {
							if id, ok := p.Type.(*ast.Ident); ok && id.Name == "SecurityHandler" {
								whServerSec = true
							}
						}
					}
					if x.Name.Name == "NewWebhookClient" {
						hasWHClient = true
						for _, p := range x.Type.Params.List {
							if id, ok := p.Type.(*ast.Ident); ok && id.Name == "SecuritySource" {
								whClientSec = true
							}
						}
					}
					if x.Name.Name == "NewServer" {
						for _, p := range x.Type.Params.List {
							if id, ok := p.Type.(*ast.Ident); ok && id.Name == "SecurityHandler" {
								serverSec = true
							}
						}
					}
					continue
				}
				if x.Name.Name == "Handle" && x.Body != nil && strings.Contains(text(x.Recv.List[0].Type), "WebhookServer") {
					ast.Inspect(x.Body, func(n ast.Node) bool {
						cc, ok := n.(*ast.CaseClause)
						if !ok || len(cc.List) != 1 {
							return true
						}
						lit, ok := cc.List[0].(*ast.BasicLit)
						if !ok || lit.Kind != token.STRING {
							return true
						}
						name, err := strconv.Unquote(lit.Value)
						if err != nil {
							return true
						}
						// the outer cases are webhook names; the calls below them name the operations
						for _, st := range cc.Body {
							ast.Inspect(st, func(m ast.Node) bool {
								if ce, ok := m.(*ast.CallExpr); ok {
									if se, ok := ce.Fun.(*ast.SelectorExpr); ok && strings.HasPrefix(se.Sel.Name, "handle") && strings.HasSuffix(se.Sel.Name, "Request") {
										op := strings.TrimSuffix(strings.TrimPrefix(se.Sel.Name, "handle"), "Request")
										if _, seen := whOps[op]; !seen {
											whOps[op] = name
										}
									}
								}
								return true
							})
						}
						return false
					})
				}
				if ast.IsExported(x.Name.Name) || x.Type.Params.NumFields() != 0 || x.Type.Results.NumFields() != 0 || x.Body == nil || len(x.Body.List) != 0 || len(x.Recv.List) != 1 {
					continue
				}
				impls[x.Name.Name] = append(impls[x.Name.Name], text(x.Recv.List[0].Type))
			case *ast.GenDecl:
				for _, sp := range x.Specs {
					ts, ok := sp.(*ast.TypeSpec)
					if !ok {
						continue
					}
					it, ok := ts.Type.(*ast.InterfaceType)
					if !ok {
						continue
					}
					if len(it.Methods.List) == 1 && len(it.Methods.List[0].Names) == 1 && !ast.IsExported(it.Methods.List[0].Names[0].Name) {
						ifaces[it.Methods.List[0].Names[0].Name] = ts.Name.Name
					}
					if ts.Name.Name != "Handler" && ts.Name.Name != "SecuritySource" && ts.Name.Name != "WebhookHandler" {
						continue
					}
					for _, im := range f.Imports {
						path := strings.Trim(im.Path.Value, `"`)
						name := path[strings.LastIndex(path, "/")+1:]
						if im.Name != nil {
							name = im.Name.Name
						}
						imports[name] = path
					}
					for _, m := range it.Methods.List {
						if len(m.Names) != 1 {
							continue
						}
						ft, ok := m.Type.(*ast.FuncType)
						if !ok {
							continue
						}
						var names []string
						for _, p := range ft.Params.List {
							for _, n := range p.Names {
								names = append(names, n.Name)
							}
						}
						mm := method{name: m.Names[0].Name, params: text(ft.Params), call: strings.Join(names, ", ")}
						if ft.Results != nil {
							mm.results = text(ft.Results)
						}
						if ts.Name.Name == "SecuritySource" {
							source = append(source, mm)
						} else if ts.Name.Name == "WebhookHandler" {
							if mm.name != "NewError" {
								whHandler = append(whHandler, mm)
							}
						} else if mm.name == "NewError" {
							newErrorSig = mm.params + " " + mm.results
						} else {
							handler = append(handler, mm)
						}
					}
				}
			}
		}
	}
	if !hasNewClient || len(handler) == 0 {
		return nil, nil
	}
	var sb strings.Builder
	sb.WriteString("type simTyped struct {\n\tcb func(ctx context.Context, op string, args []any, res any) error\n\tne func(ctx context.Context, err error, res any)\n}\n\n")
	info := &typedInfo{}
	emit := func(recv string, ms []method) error {
		for _, m := range ms {
			// arguments after ctx
			args := strings.TrimPrefix(m.call, "ctx")
			args = strings.TrimPrefix(args, ", ")
			res := strings.TrimSpace(m.results)
			if res == "error" {
				fmt.Fprintf(&sb, "func (h *%s) %s%s error {\n\treturn h.cb(ctx, %q, []any{%s}, nil)\n}\n\n", recv, m.name, m.params, m.name, args)
				continue
			}
			// "(T, error)"
			inner := strings.TrimSuffix(strings.TrimPrefix(res, "("), ")")
			i := strings.LastIndex(inner, ",")
			if i < 0 {
				return fmt.Errorf("typed glue: cannot read results %q of %s", res, m.name)
			}
			rt := strings.TrimSpace(inner[:i])
			if sp := strings.IndexByte(rt, ' '); sp >= 0 && !strings.ContainsAny(rt[:sp], "[]*.") {
				rt = strings.TrimSpace(rt[sp+1:]) // named result
			}
			fmt.Fprintf(&sb, "func (h *%s) %s%s %s {\n\tvar simRes %s\n\tsimErr := h.cb(ctx, %q, []any{%s}, &simRes)\n\treturn simRes, simErr\n}\n\n", recv, m.name, m.params, res, rt, m.name, args)
		}
		return nil
	}
	for _, m := range handler {
		info.Ops = append(info.Ops, m.name)
	}
	if err := emit("simTyped", handler); err != nil {
		return nil, err
	}
	withWH := hasWHServer && hasWHClient && len(whHandler) > 0
	if withWH {
		sb.WriteString("type simTypedWH struct {\n\tcb func(ctx context.Context, op string, args []any, res any) error\n}\n\n")
		if err := emit("simTypedWH", whHandler); err != nil {
			return nil, err
		}
		for _, m := range whHandler {
			if whOps[m.name] != "" {
				info.Ops = append(info.Ops, "~"+m.name) // "~": a webhook operation
			}
		}
	}
	if newErrorSig != "" {
		// NewError(ctx context.Context, err error) *ErrorStatusCode
		i := strings.LastIndex(newErrorSig, ")")
		rt := strings.TrimSpace(newErrorSig[i+1:])
		rt = strings.TrimSuffix(strings.TrimPrefix(rt, "("), ")")
		if sp := strings.IndexByte(rt, ' '); sp >= 0 {
			rt = strings.TrimSpace(rt[sp+1:])
		}
		fmt.Fprintf(&sb, "func (h *simTyped) NewError%s {\n\tvar simRes %s\n\th.ne(ctx, err, &simRes)\n\treturn simRes\n}\n\n", newErrorSig, rt)
	}
	if clientSec {
		sb.WriteString("type simSrc struct{ fill func(context.Context, any) }\n\n")
		for _, m := range source {
			if strings.TrimSpace(m.results) == "error" {
				fmt.Fprintf(&sb, "func (s simSrc) %s%s error {\n\treturn nil\n}\n\n", m.name, m.params)
				continue
			}
			inner := strings.TrimSuffix(strings.TrimPrefix(strings.TrimSpace(m.results), "("), ")")
			i := strings.LastIndex(inner, ",")
			if i < 0 {
				return nil, fmt.Errorf("typed glue: cannot read results of security source method %s", m.name)
			}
			fmt.Fprintf(&sb, "func (s simSrc) %s%s %s {\n\tvar simRes %s\n\ts.fill(ctx, &simRes)\n\treturn simRes, nil\n}\n\n", m.name, m.params, m.results, strings.TrimSpace(inner[:i]))
		}
	}
	// the per-call override of the server URL (a context value in the default configuration)
	if b, err := os.ReadFile(filepath.Join(dir, "oas_client_gen.go")); err == nil && strings.Contains(string(b), "\nfunc WithServerURL(ctx context.Context, u *url.URL) context.Context {") {
		sb.WriteString("// SimWithServerURL is the package's per-call override of the server URL.\nvar SimWithServerURL any = WithServerURL\n\n")
	} else {
		sb.WriteString("// SimWithServerURL: the package has no per-call override of the server URL through the context.\nvar SimWithServerURL any\n\n")
	}
	// the per-call request options (feature client/request/options): the four constructors, as an application would use them
	if b, err := os.ReadFile(filepath.Join(dir, "oas_client_gen.go")); err == nil && strings.Contains(string(b), "\nfunc WithRequestClient(client ht.Client) RequestOption {") && strings.Contains(string(b), "\nfunc WithServerURL(u *url.URL) RequestOption {") && strings.Contains(string(b), "\nfunc WithEditRequest(fn func(req *http.Request) error) RequestOption {") && strings.Contains(string(b), "\nfunc WithEditResponse(fn func(resp *http.Response) error) RequestOption {") {
		sb.WriteString("// SimReqOpts are the package's per-call request options: client, server URL, edit request, edit response.\nvar SimReqOpts = []any{WithRequestClient, WithServerURL, WithEditRequest, WithEditResponse}\n\n")
	} else {
		sb.WriteString("// SimReqOpts: the package has no per-call request options.\nvar SimReqOpts []any\n\n")
	}
	// the package's Labeler (custom attributes for the request metrics), as an application would use it
	if b, err := os.ReadFile(filepath.Join(dir, "oas_labeler_gen.go")); err == nil && strings.Contains(string(b), "\nfunc LabelerFromContext(ctx context.Context) (*Labeler, bool) {") && strings.Contains(string(b), "\"go.opentelemetry.io/otel/attribute\"") {
		imports["attribute"] = "go.opentelemetry.io/otel/attribute"
		sb.WriteString("// SimLabel adds one label through the Labeler of the context and returns what that Labeler holds afterwards.\nvar SimLabel any = func(ctx context.Context, key, val string, pause func()) string {\n\tl, _ := LabelerFromContext(ctx)\n\tl.Add(attribute.String(key, val))\n\tpause()\n\tset := l.AttributeSet()\n\treturn set.Encoded(attribute.DefaultEncoder())\n}\n\n")
	} else {
		sb.WriteString("// SimLabel: the package has no Labeler.\nvar SimLabel any\n\n")
	}
	sb.WriteString("// SimWebhooks maps a webhook operation to the webhook it belongs to.\nvar SimWebhooks = map[string]string{")
	if withWH {
		var ks []string
		for k := range whOps {
			ks = append(ks, k)
		}
		sort.Strings(ks)
		for _, k := range ks {
			fmt.Fprintf(&sb, "%q: %q, ", k, whOps[k])
		}
	}
	sb.WriteString("}\n\n")
	sb.WriteString("// SimOps lists the operations (Handler methods; webhook operations carry a ~).\nvar SimOps = []string{")
	for _, op := range info.Ops {
		fmt.Fprintf(&sb, "%q, ", op)
	}
	sb.WriteString("}\n\n// SimImpls lists the concrete types behind every sum interface.\nvar SimImpls = map[string][]reflect.Type{\n")
	var markers []string
	for m := range ifaces {
		markers = append(markers, m)
	}
	sort.Strings(markers)
	for _, m := range markers {
		fmt.Fprintf(&sb, "\t%q: {", ifaces[m])
		for _, recv := range impls[m] {
			if strings.HasPrefix(recv, "*") {
				fmt.Fprintf(&sb, "reflect.TypeOf((%s)(nil)), ", recv)
			} else {
				fmt.Fprintf(&sb, "reflect.TypeOf((*%s)(nil)).Elem(), ", recv)
			}
		}
		sb.WriteString("},\n")
	}
	sb.WriteString("}\n\n")
	sb.WriteString("// SimTypedNew builds one server and one client (and the webhook pair, if any) around the callbacks.\nfunc SimTypedNew(prefix string, cb func(ctx context.Context, op string, args []any, res any) error, ne func(ctx context.Context, err error, res any), fill func(context.Context, any), saw func(context.Context, any) error, hc ht.Client, eh func(context.Context, http.ResponseWriter, *http.Request, error), nf http.HandlerFunc, mna func(http.ResponseWriter, *http.Request, string), mws ...middleware.Middleware) (http.Handler, any, any, error) {\n")
	if serverSec {
		sb.WriteString("\tsrv, err := NewServer(&simTyped{cb: cb, ne: ne}, simSec{saw: saw}, WithMiddleware(mws...), WithErrorHandler(eh), WithPathPrefix(prefix), WithNotFound(nf), WithMethodNotAllowed(mna))\n")
	} else {
		sb.WriteString("\tsrv, err := NewServer(&simTyped{cb: cb, ne: ne}, WithMiddleware(mws...), WithErrorHandler(eh), WithPathPrefix(prefix), WithNotFound(nf), WithMethodNotAllowed(mna))\n")
	}
	sb.WriteString("\tif err != nil {\n\t\treturn nil, nil, nil, err\n\t}\n")
	if clientSec {
		sb.WriteString("\tcl, err := NewClient(\"http://sim.test\"+prefix, simSrc{fill: fill}, WithClient(hc))\n")
	} else {
		sb.WriteString("\tcl, err := NewClient(\"http://sim.test\"+prefix, WithClient(hc))\n")
	}
	sb.WriteString("\tif err != nil {\n\t\treturn nil, nil, nil, err\n\t}\n")
	if withWH {
		if whServerSec {
			sb.WriteString("\twhs, err := NewWebhookServer(&simTypedWH{cb: cb}, simSec{saw: saw}, WithMiddleware(mws...), WithErrorHandler(eh))\n")
		} else {
			sb.WriteString("\twhs, err := NewWebhookServer(&simTypedWH{cb: cb}, WithMiddleware(mws...), WithErrorHandler(eh))\n")
		}
		sb.WriteString("\tif err != nil {\n\t\treturn nil, nil, nil, err\n\t}\n")
		if whClientSec {
			sb.WriteString("\twhc, err := NewWebhookClient(simSrc{fill: fill}, WithClient(hc))\n")
		} else {
			sb.WriteString("\twhc, err := NewWebhookClient(WithClient(hc))\n")
		}
		sb.WriteString("\tif err != nil {\n\t\treturn nil, nil, nil, err\n\t}\n")
		sb.WriteString("\tmux := http.HandlerFunc(func(w http.ResponseWriter, r *http.Request) {\n\t\tconst p = \"/__wh/\"\n\t\tif len(r.URL.Path) > len(p) && r.URL.Path[:len(p)] == p {\n\t\t\twhs.Handler(r.URL.Path[len(p):]).ServeHTTP(w, r)\n\t\t\treturn\n\t\t}\n\t\tsrv.ServeHTTP(w, r)\n\t})\n\treturn mux, cl, whc, nil\n}\n")
	} else {
		sb.WriteString("\treturn srv, cl, nil, nil\n}\n")
	}
	body := sb.String()
	var hd strings.Builder
	hd.WriteString("// Written by the verification framework's corpus driver; not generated by ogen.\n\npackage api\n\nimport (\n\t\"context\"\n\t\"net/http\"\n\t\"reflect\"\n\n\tht \"github.com/ogen-go/ogen/http\"\n\t\"github.com/ogen-go/ogen/middleware\"\n")
	var names []string
	for name := range imports {
		names = append(names, name)
	}
	sort.Strings(names)
	for _, name := range names {
		switch name {
		case "context", "http", "reflect", "ht", "middleware":
			continue
		}
		if regexp.MustCompile(`[^A-Za-z0-9_.]` + regexp.QuoteMeta(name) + `\.[A-Z]`).MatchString(body) {
			fmt.Fprintf(&hd, "\t%s %q\n", name, imports[name])
		}
	}
	hd.WriteString(")\n\nvar _ context.Context\nvar _ http.Handler\n\n")
	return info, os.WriteFile(filepath.Join(dir, "zz_sim_typed.go"), []byte(hd.String()+body), 0o644)
}
