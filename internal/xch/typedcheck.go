package xch

import (
	"encoding/json"
	"fmt"
	"math/rand"
	"os"
	"path/filepath"
	"sort"
	"strings"
	"sync"

	"verif/internal/build"
	"verif/internal/core"
)

// The typed corpus exchange (simsrc/csim/typed.go): the generated client of every regenerated corpus
// package calls the generated server of the same package through the simulated link with values made by
// reflection from a seed; the harness compares what was supplied with what arrived, as trees. This file
// samples the scenarios and applies the rules of C01, C15 and C19 to the records.

// ---- mirror of the typed part of the harness records

type TypedSide struct {
	Reached  bool   `json:"reached"`
	Op       string `json:"op,omitempty"`
	SawSum   string `json:"saw_sum,omitempty"`
	RespSum  string `json:"resp_sum,omitempty"`
	RespType string `json:"resp_type,omitempty"`
	RespSum2 bool   `json:"resp_has_sum,omitempty"`
}

type TypedRec struct {
	Op        string       `json:"op"`
	SentSum   string       `json:"sent_sum"`
	Sides     []*TypedSide `json:"sides"`
	GotValue  bool         `json:"got_value"`
	GotSum    string       `json:"got_sum,omitempty"`
	GotType   string       `json:"got_type,omitempty"`
	SentSum2  bool         `json:"sent_has_sum,omitempty"`
	Harness   string       `json:"harness,omitempty"`
	Problems  []string     `json:"problems,omitempty"`
	Defaults  int          `json:"defaults"`
	ReqExact  bool         `json:"req_exact"`
	RespExact bool         `json:"resp_exact"`
	OptSel    int          `json:"opt_sel,omitempty"`
}

// Deliverable lists, per corpus document, the operations whose schemas admit every core-domain value the
// harness makes (request direction) and the response variants for which the same holds (response direction).
// It is a fact about the documents, established by observation on the pinned tree (tools/learn_typed.sh) and
// guarded by the document's hash: for a document that changed, delivery is not demanded.
type Deliverable struct {
	SHA  string              `json:"sha"`
	Req  []string            `json:"req"`
	Resp map[string][]string `json:"resp"`
}

func loadDeliverable() map[string]*Deliverable {
	out := map[string]*Deliverable{}
	b, err := os.ReadFile(filepath.Join(build.VerifDir, "worlds", "tcorp", "deliverable.json"))
	if err != nil {
		return out
	}
	_ = json.Unmarshal(b, &out)
	return out
}

type deliverSet struct {
	req  map[string]bool
	resp map[string]bool // op + " " + variant
	// all: a matrix document (matrix.go): its schemas carry no constraint, every operation and variant is demanded
	all bool
}

func (d *deliverSet) hasReq(k string) bool  { return d.all || d.req[k] }
func (d *deliverSet) hasResp(k string) bool { return d.all || d.resp[k] }

func (e *Engine) deliverSets() map[string]*deliverSet {
	all := loadDeliverable()
	out := map[string]*deliverSet{}
	for _, p := range e.Corpus {
		if isMatrix(p) {
			out[p.Name] = &deliverSet{all: true}
			continue
		}
		d := all[specKey(p.Spec)]
		if d == nil || d.SHA != p.SpecSHA {
			continue
		}
		ds := &deliverSet{req: map[string]bool{}, resp: map[string]bool{}}
		for _, op := range d.Req {
			ds.req[op] = true
		}
		for op, vs := range d.Resp {
			for _, v := range vs {
				ds.resp[op+" "+v] = true
			}
		}
		out[p.Name] = ds
	}
	return out
}

// specKey names a document independently of where the scratch copy lives.
func specKey(spec string) string {
	if filepath.IsAbs(spec) {
		return "derived:" + strings.TrimSuffix(filepath.Base(spec), filepath.Ext(spec))
	}
	return spec
}

// ---- sampling

func sampleTyped(rng *rand.Rand, pkg CorpusPkg, mode Mode, i int) CScenario {
	sc := CScenario{
		World: "corpus", ID: fmt.Sprintf("typed:%s#%d", pkg.Name, i), Pkg: pkg.Name, Seed: rng.Uint64() >> 1, Typed: true,
		YieldP: []float64{0.3, 1}[rng.Intn(2)], MaxDelay: []int{1, 3, 10}[rng.Intn(3)], Procs: []int{1, 2, 4, 8, 16}[rng.Intn(5)],
		PoolPolicy: rng.Intn(3), Poison: rng.Intn(4) != 0, MapPolicy: []int{2, 3, 4}[rng.Intn(3)],
		// half of the scenarios mount the server under a path prefix and give the client the matching base URL
		Prefix: []string{"", "", "/api/v1", "/x"}[rng.Intn(4)],
		// half of the scenarios override the server URL per call, all calls with one URL value the caller owns
		Override: rng.Intn(2) == 0,
		// half of the scenarios give the server the user's own NotFound and MethodNotAllowed handlers
		CustomNF: rng.Intn(2) == 0,
		// a third of the scenarios: the handler answers from canned response objects shared between requests
		SharedResp: rng.Intn(3) == 0,
		Literals:   routeLiterals(pkg),
	}
	switch rng.Intn(4) {
	case 0:
		sc.MinChunk, sc.MaxChunk = 1, 5
	case 1:
		sc.MinChunk, sc.MaxChunk = 1, 64
	case 2:
		sc.MinChunk, sc.MaxChunk = 16, 1500
	default:
		sc.MinChunk, sc.MaxChunk = 1<<16, 1<<16
	}
	nTasks, nOps := 1, 1+rng.Intn(3)
	if mode == ModeC19 {
		nTasks, nOps = 2+rng.Intn(6), 2+rng.Intn(4)
	}
	frac := func() int { return 1 + rng.Intn(999) }
	// C19: half of the scenarios are "hot": every task calls the same one or two operations, so that whatever state
	// an operation's code path shares between requests is entered by several requests at once
	opPool := pkg.Ops
	if mode == ModeC19 && rng.Intn(2) == 0 {
		opPool = []string{pkg.Ops[rng.Intn(len(pkg.Ops))]}
		if rng.Intn(2) == 0 {
			opPool = append(opPool, pkg.Ops[rng.Intn(len(pkg.Ops))])
		}
	}
	for t := 0; t < nTasks; t++ {
		var calls []RawCall
		for o := 0; o < nOps; o++ {
			c := RawCall{TOp: opPool[rng.Intn(len(opPool))], V: rng.Uint64() >> 1, Edge: rng.Intn(4) == 0}
			switch mode {
			case ModeC01Clean:
				if rng.Intn(6) == 0 {
					c.Fault = &Fault{Kind: []string{"dup", "replay"}[rng.Intn(2)]}
				}
			case ModeC01Fault:
				switch rng.Intn(5) {
				case 0:
					c.Fault = &Fault{Kind: "cut-req", Frac: frac()}
				case 1:
					c.Fault = &Fault{Kind: "reset-req", Frac: frac()}
				case 2:
					c.Fault = &Fault{Kind: "cut-resp", Frac: frac()}
				case 3:
					c.Fault = &Fault{Kind: "reset-resp", Frac: frac()}
				case 4:
					c.Fault = &Fault{Kind: "cancel", At: 1 + rng.Intn(40)}
				}
			case ModeC15:
				if sc.Prefix != "" && rng.Intn(12) == 0 {
					// the request line glues the rest of the path onto the mount prefix: outside the mount, 404
					c.Fault = &Fault{Kind: "mangle", Arg: "path:glue", Val: sc.Prefix}
					break
				}
				switch rng.Intn(14) {
				case 10, 11, 12:
					c.Fault = sampleMangle(rng, []string{fmt.Sprintf("query#%d", rng.Intn(120)), fmt.Sprintf("query#%d", rng.Intn(120)), fmt.Sprintf("header#%d", rng.Intn(12)), fmt.Sprintf("cookie#%d", rng.Intn(6)), fmt.Sprintf("path:%d", rng.Intn(6))})
				case 13:
					c.Fault = &Fault{Kind: "dup-query", Arg: fmt.Sprintf("#%d", rng.Intn(120))}
					if rng.Intn(2) == 0 {
						c.Fault = &Fault{Kind: "mangle", Arg: fmt.Sprintf("path:%d", rng.Intn(6)), Val: rawSegments[rng.Intn(len(rawSegments))]}
					}
				case 0, 1:
					c.Fault = &Fault{Kind: "cut-req", Frac: frac()}
				case 2:
					c.Fault = &Fault{Kind: "reset-req", Frac: frac()}
				case 3:
					c.Fault = &Fault{Kind: "cancel", At: 1 + rng.Intn(40)}
				case 4:
					c.Fault = &Fault{Kind: "writer-fail", At: rng.Intn(200)}
				case 5:
					c.Fault = &Fault{Kind: "method", Arg: []string{"GET", "PUT", "DELETE", "PATCH", "POST", "HEAD", "OPTIONS"}[rng.Intn(7)]}
				case 6:
					c.Fault = &Fault{Kind: "ctype", Arg: []string{"", "text/weird", "application", ";;;", "application/json; charset="}[rng.Intn(5)]}
				case 7, 8:
					c.Fault = &Fault{Kind: "flip", At: rng.Intn(600)}
					if rng.Intn(3) == 0 {
						c.Fault = &Fault{Kind: "lie-length", Arg: []string{"4611686018427387904", "9223372036854775807", "1152921504606846976"}[rng.Intn(3)]}
					}
				case 9:
					c.Fault = &Fault{Kind: "append", Arg: []string{"}", " x", "]", "\x00", ",", "{}", "1", "\"s\"", "null", "  \n"}[rng.Intn(10)]}
				}
			case ModeC19:
				if sc.CustomNF && rng.Intn(5) == 0 {
					// neighbours whose requests fail routing (the application's own NotFound / MethodNotAllowed handlers
					// answer them, several at a time)
					if rng.Intn(2) == 0 {
						c.Fault = &Fault{Kind: "method", Arg: []string{"PUT", "DELETE", "PATCH", "HEAD"}[rng.Intn(4)]}
					} else {
						c.Fault = &Fault{Kind: "mangle", Arg: "path:0", Val: "nosuchroute" + fmt.Sprint(rng.Intn(1000))}
					}
				} else if rng.Intn(8) == 0 {
					c.Fault = &Fault{Kind: []string{"cut-req", "cancel", "cut-resp", "writer-fail", "dup", "replay"}[rng.Intn(6)], Frac: frac(), At: 1 + rng.Intn(30)}
					if k := c.Fault.Kind; k == "cancel" || k == "writer-fail" || k == "dup" || k == "replay" {
						c.Fault.Frac = 0
					}
				}
			}
			calls = append(calls, c)
		}
		sc.Tasks = append(sc.Tasks, calls)
	}
	return sc
}

// routeLiterals: the literal segments of a package's path templates (at most 12, the shortest first: a short literal
// is the likelier prefix of a value).
func routeLiterals(pkg CorpusPkg) []string {
	seen := map[string]bool{}
	var out []string
	for _, r := range pkg.Routes {
		for _, seg := range strings.Split(r.Path, "/") {
			if seg == "" || strings.ContainsAny(seg, "{}") || seen[seg] {
				continue
			}
			ok := true
			for _, c := range seg {
				if !(c >= 'a' && c <= 'z' || c >= '0' && c <= '9') {
					ok = false
				}
			}
			// (short and made of the core domain's own characters: with one to three more characters the value stays
			// inside what the deliverable lists were learned with - texts of up to eight lower-case letters and digits)
			if ok && len(seg) <= 5 {
				seen[seg] = true
				out = append(out, seg)
			}
		}
	}
	sort.Slice(out, func(i, j int) bool {
		if len(out[i]) != len(out[j]) {
			return len(out[i]) < len(out[j])
		}
		return out[i] < out[j]
	})
	if len(out) > 12 {
		out = out[:12]
	}
	return out
}

// ---- rules

func firedKind(r *CRecord) string {
	if r.Call.Fault == nil || !r.FaultFired {
		return ""
	}
	return r.Call.Fault.Kind
}

// keyOf makes a violation key without blanks (known-findings.txt matches keys by substring, word by word).
func keyOf(k string) string { return strings.ReplaceAll(k, " ", "_") }

func problemClass(p string) string {
	if i := strings.Index(p, " (delivery"); i >= 0 {
		return p[:i]
	}
	if i := strings.Index(p, ": "); i >= 0 {
		return p[:i]
	}
	return p
}

// typedExact: the exactness rules, under the damage kinds that cannot legitimately change a value.
func typedExact(r *CRecord, pkg string) []problem {
	var out []problem
	t := r.T
	if t == nil {
		return nil
	}
	k := firedKind(r)
	for _, p := range t.Problems {
		cls := problemClass(p)
		if (k == "flip" || k == "ctype" || k == "append" || k == "mangle" || k == "dup-query") && strings.HasPrefix(cls, "request/handler received a different value") {
			continue // the damage changed the bytes: a different (well-formed) value is a legitimate reading of them
		}
		if k == "flip" && (strings.HasPrefix(cls, "response/") || strings.HasPrefix(cls, "default/")) {
			continue
		}
		if strings.HasPrefix(cls, "request/stream ended with an error") && (k == "cut-req" || k == "reset-req" || k == "cancel" || k == "flip" || k == "append" || k == "method" || k == "ctype") {
			continue // a streamed body is handed over as it arrives; the handler was told that it is incomplete
		}
		if strings.HasPrefix(cls, "response/stream ended with an error") && (k == "cut-resp" || k == "reset-resp" || k == "cancel" || k == "writer-fail" || k == "flip") {
			continue
		}
		if (k == "method" || k == "flip") && strings.HasPrefix(cls, "request/operation") {
			continue // the altered request is a request for another operation
		}
		if k == "method" || k == "flip" {
			if strings.HasPrefix(cls, "request/handler received") || strings.HasPrefix(cls, "response/") || strings.HasPrefix(cls, "request/middleware saw") {
				continue
			}
		}
		key := keyOf("typed/" + cls + "/" + pkg + "/" + r.Call.TOp)
		if strings.Contains(cls, "number arrived one unit in the last place away") {
			key = keyOf("typed/json number reader/" + cls[strings.Index(cls, "/")+1:]) // one cause (a dependency), whatever the operation
		}
		if strings.Contains(cls, "empty list arrived as one empty text") {
			key = keyOf("typed/joined style/" + cls) // one cause per direction, whatever the operation
		}
		if strings.Contains(cls, "media type arrived without its parameters") {
			key = keyOf("typed/wildcard body/" + cls) // one cause per direction, whatever the operation
		}
		out = append(out, problem{"values are exchanged exactly (typed corpus exchange)", fmt.Sprintf("call t%d.o%d %s (value seed %d, edge=%v, fault %+v fired=%v): %s", r.Task, r.Op, r.Call.TOp, r.Call.V, r.Call.Edge, r.Call.Fault, r.FaultFired, p), key})
	}
	if strings.HasPrefix(r.ClientErr, "client panic") {
		out = append(out, problem{"the generated client does not panic", fmt.Sprintf("call t%d.o%d %s (value seed %d, edge=%v): %s", r.Task, r.Op, r.Call.TOp, r.Call.V, r.Call.Edge, r.ClientErr), keyOf("typed/client panic/" + pkg + "/" + r.Call.TOp)})
	}
	return out
}

// opKey: deliverability is learned and demanded separately for the two value ranges of the harness.
func opKey(c *RawCall) string {
	k := c.TOp
	if c.V&1 == 0 {
		k += "#small"
	}
	if c.Edge {
		k += "#wide"
	}
	return k
}

// mustBeDeliverable: the call holds only values the property says are always delivered: core calls, and the
// "wide" edge calls (numbers of the whole width, instants of any year; text and array lengths core).
func mustBeDeliverable(c *RawCall) bool { return !c.Edge || c.V&2 == 0 }

func reachedSide(t *TypedRec) *TypedSide {
	for _, s := range t.Sides {
		if s != nil && s.Reached {
			return s
		}
	}
	return nil
}

// typedDeliver: core-domain values are always delivered (fault-free and benign link behaviours only).
func typedDeliver(r *CRecord, pkg string, ds *deliverSet) []problem {
	t := r.T
	if t == nil || ds == nil || !mustBeDeliverable(&r.Call) || t.Harness != "" {
		return nil
	}
	if f := r.Call.Fault; f != nil && f.Kind != "dup" && f.Kind != "replay" {
		return nil
	}
	for _, s := range r.Sides {
		if s.SecurityRefused {
			return nil // the application itself refused the call
		}
	}
	var out []problem
	rs := reachedSide(t)
	// Which variant of a sum of number kinds a number of the whole width selects (an integral 1e21: integer or
	// number?) is the document's ambiguity, and the answer may be "neither fits": where a sum type is involved,
	// delivery of wide values is not demanded (exactness still is).
	wide := r.Call.Edge
	if ds.hasReq(opKey(&r.Call)) && !(wide && t.SentSum2) {
		if rs == nil {
			st := 0
			if len(r.Sides) > 0 {
				st = r.Sides[0].Status
				if r.Sides[0].ErrBody != "" {
					r.ClientErr += " | server said: " + clip(r.Sides[0].ErrBody, 250)
				}
			}
			out = append(out, problem{"core-domain values are always delivered (request)", fmt.Sprintf("call t%d.o%d %s (value seed %d): the handler was not reached: server status %d, client error %q", r.Task, r.Op, r.Call.TOp, r.Call.V, st, r.ClientErr), keyOf("typed/undelivered request/" + pkg + "/" + r.Call.TOp)})
		}
	}
	if rs != nil && rs.RespType != "" && ds.hasResp(opKey(&r.Call)+" "+rs.RespType) && !(wide && rs.RespSum2) {
		if !t.GotValue {
			out = append(out, problem{"core-domain values are always delivered (response)", fmt.Sprintf("call t%d.o%d %s (value seed %d): the handler returned %s, the caller got error %q", r.Task, r.Op, r.Call.TOp, r.Call.V, rs.RespType, r.ClientErr), keyOf("typed/undelivered response/" + pkg + "/" + r.Call.TOp + "/" + rs.RespType)})
		}
	}
	return out
}

// typedC15: the generic server rules on requests the generated client really sent, plus: under a damaged
// connection the handler never sees partial data (typedExact).
func typedC15(r *CRecord, pkg string) []problem {
	var out []problem
	k := firedKind(r)
	add := func(oracle, what string) {
		out = append(out, problem{oracle, fmt.Sprintf("call t%d.o%d %s (value seed %d, edge=%v, fault %+v fired=%v): %s", r.Task, r.Op, r.Call.TOp, r.Call.V, r.Call.Edge, r.Call.Fault, r.FaultFired, what), keyOf("typed/" + k + "/" + oracle + "/" + pkg)})
	}
	for i, s := range r.Sides {
		if !s.Delivered {
			continue
		}
		if s.Panic != "" {
			add("server does not panic", fmt.Sprintf("delivery %d: panic: %s", i, clip(s.Panic, 300)))
			continue
		}
		if !s.Returned {
			add("ServeHTTP returns", fmt.Sprintf("delivery %d did not return", i))
			continue
		}
		if s.WriteErrs > 0 {
			continue
		}
		if s.Commits != 1 || s.WriteHeaders > 1 || s.WritesAfter > 0 {
			add("exactly one response", fmt.Sprintf("delivery %d: %d header commits, %d WriteHeader calls, %d writes after return", i, s.Commits, s.WriteHeaders, s.WritesAfter))
		}
		if !s.Explicit {
			add("exactly one response", fmt.Sprintf("delivery %d: the server wrote nothing", i))
		}
		// the user's own NotFound / MethodNotAllowed handlers: never more than once, never next to a handler
		if n := s.CustomNotFound + s.CustomNotAllow; n > 0 && (n > 1 || s.MiddlewareOps > 0 || s.HandlerCalls > 0) {
			add("a configured NotFound/MethodNotAllowed handler is the only answer to a request it is given", fmt.Sprintf("delivery %d: NotFound ran %d times, MethodNotAllowed %d times, middleware %d, handler %d", i, s.CustomNotFound, s.CustomNotAllow, s.MiddlewareOps, s.HandlerCalls))
		}
		if s.MiddlewareOps > 1 || s.HandlerCalls > 1 {
			add("handler invoked at most once", fmt.Sprintf("delivery %d: middleware ran %d times, handler %d times", i, s.MiddlewareOps, s.HandlerCalls))
		}
		if s.HandlerCalls == 1 && s.MiddlewareOps != 1 {
			add("stage order", fmt.Sprintf("delivery %d: handler ran, middleware ran %d times", i, s.MiddlewareOps))
		}
		if s.DecodeErrBodyForeign || s.DecodeErrBodyChanged {
			add("the error handler is shown the rejected body of this request, and it stays what it is", fmt.Sprintf("delivery %d: not this request's: %v, changed while held: %v", i, s.DecodeErrBodyForeign, s.DecodeErrBodyChanged))
		}
		optionsPreflight := k == "method" && r.Call.Fault.Arg == "OPTIONS" && s.Status == 204
		if s.MiddlewareOps == 0 && s.Explicit && !ogenStatuses[s.Status] && !optionsPreflight && !(s.NewErrorStatus != 0 && s.Status == s.NewErrorStatus) {
			add("a request that does not reach the handler is answered 404/405/401/400/415", fmt.Sprintf("delivery %d: status %d without reaching the handler", i, s.Status))
		}
		// (a digit, sign, point or exponent letter may simply continue a body that is a bare number: "5" + "1" is 51)
		if k == "append" && s.HandlerCalls > 0 && strings.TrimSpace(r.Call.Fault.Arg) != "" && !strings.ContainsAny(strings.TrimSpace(r.Call.Fault.Arg)[:1], "0123456789.eE+-") && r.T != nil && jsonBodied(r) {
			add("trailing data after a JSON body is refused", fmt.Sprintf("delivery %d: the handler ran although %q followed the body", i, r.Call.Fault.Arg))
		}
	}
	// Under a damaged connection the handler never sees partial data. (Exact exchange without damage is C01's.)
	if k == "cut-req" || k == "reset-req" || k == "cancel" || k == "dup" || k == "replay" || k == "writer-fail" {
		for _, p := range typedExact(r, pkg) {
			if strings.Contains(p.Key, "typed/request/") || strings.Contains(p.Key, "client_panic") {
				out = append(out, p)
			}
		}
	}
	if k == "mangle" {
		for _, p := range typedExact(r, pkg) {
			if strings.Contains(p.Key, "not_a_reading_of_the_text_on_the_wire") {
				out = append(out, p)
			}
		}
	}
	return out
}

// jsonBodied: the request the client sent had a JSON body (known from the wire: the harness records it).
func jsonBodied(r *CRecord) bool { return strings.HasPrefix(r.ReqCT, "application/json") }

func typedC19(alone, conc *CRecord, pkg string) []problem {
	var out []problem
	add := func(oracle, what string) {
		out = append(out, problem{oracle, fmt.Sprintf("call t%d.o%d %s (value seed %d): %s", conc.Task, conc.Op, conc.Call.TOp, conc.Call.V, what), keyOf("typed/" + oracle + "/" + pkg)})
	}
	if !conc.Returned {
		add("every call returns once faults stop (bounded liveness)", "the call never returned")
		return out
	}
	// exactness as such is C01's; here: what the handler holds does not change under it, nothing panics
	for _, p := range typedExact(conc, pkg) {
		if strings.Contains(p.Key, "another_call's_credential") || strings.Contains(p.Key, "value_changed_while_the_handler_held_it") || strings.Contains(p.Key, "client_panic") || strings.Contains(p.Key, "second_middleware") || strings.Contains(p.Key, "request/operation") || strings.Contains(p.Key, "ran_without_the_middleware") {
			out = append(out, p)
		}
	}
	for i, s := range conc.Sides {
		if s.LabelsForeign != "" {
			add("the labels a request reads back from the Labeler are its own", fmt.Sprintf("delivery %d: %s", i, clip(s.LabelsForeign, 400)))
		}
		if s.Delivered && s.Panic != "" {
			add("server does not panic", fmt.Sprintf("delivery %d: panic: %s", i, clip(s.Panic, 300)))
		}
		if s.DecodeErrBodyForeign || s.DecodeErrBodyChanged {
			add("the error handler is shown the rejected body of this request, and it stays what it is", fmt.Sprintf("delivery %d: not this request's: %v, changed while held: %v", i, s.DecodeErrBodyForeign, s.DecodeErrBodyChanged))
		}
	}
	if conc.Call.Fault != nil || alone == nil || conc.T == nil || alone.T == nil {
		return out
	}
	a, c := alone.T, conc.T
	if a.SentSum != c.SentSum {
		return out // the harness made different values (cannot happen: same seed); nothing to compare
	}
	as, cs := reachedSide(a), reachedSide(c)
	switch {
	case (as == nil) != (cs == nil):
		add("outcome equals the outcome when run alone", fmt.Sprintf("handler reached alone: %v, concurrently: %v (client error %q / %q)", as != nil, cs != nil, alone.ClientErr, conc.ClientErr))
	case as != nil && (as.SawSum != cs.SawSum || as.RespSum != cs.RespSum || as.Op != cs.Op):
		add("outcome equals the outcome when run alone", fmt.Sprintf("the handler saw %s/%s and returned %s; alone %s/%s and %s", cs.Op, cs.SawSum, cs.RespSum, as.Op, as.SawSum, as.RespSum))
	}
	if a.GotValue != c.GotValue || a.GotSum != c.GotSum || a.GotType != c.GotType || (alone.ClientErr == "") != (conc.ClientErr == "") || alone.Status != conc.Status {
		add("outcome equals the outcome when run alone", fmt.Sprintf("the caller got %v %s %s (error %q, status %d); alone %v %s %s (error %q, status %d)", c.GotValue, c.GotType, c.GotSum, conc.ClientErr, conc.Status, a.GotValue, a.GotType, a.GotSum, alone.ClientErr, alone.Status))
	}
	return out
}

// ---- the check

type typedStats struct {
	Calls, Reached, ReqExact, RespExact, GotValue, Edge, HarnessSkipped, Defaults int
}

// checkTyped runs the typed corpus part of C01, C15 or C19.
func (e *Engine) checkTyped(c *core.Ctx, id string) ([]core.Violation, map[string]any, error) {
	var pkgs []CorpusPkg
	for _, p := range e.Corpus {
		if only := os.Getenv("VERIF_TYPED_ONLY"); only != "" && !strings.Contains(p.Name, only) {
			continue
		}
		if len(p.Ops) > 0 {
			pkgs = append(pkgs, p)
		}
	}
	if len(pkgs) == 0 {
		return nil, map[string]any{"packages": 0}, nil
	}
	var modes []Mode
	per := map[Mode]int{}
	switch id {
	case "C01":
		modes = []Mode{ModeC01Clean, ModeC01Fault}
		per[ModeC01Clean], per[ModeC01Fault] = 150, 60
		if c.Tier == "thorough" {
			per[ModeC01Clean], per[ModeC01Fault] = 3000, 1200
		}
	case "C15":
		modes = []Mode{ModeC15}
		per[ModeC15] = 120
		if c.Tier == "thorough" {
			per[ModeC15] = 2500
		}
	default:
		modes = []Mode{ModeC19}
		per[ModeC19] = 60
		if c.Tier == "thorough" {
			per[ModeC19] = 1200
		}
	}
	rng := rand.New(rand.NewSource(c.Seed ^ 0x7e57ed))
	var scs, raceScs []CScenario
	var scMode []Mode
	for _, p := range pkgs {
		// a package with many operations gets proportionally more runs (bounded)
		w := 1 + min(len(p.Ops), 40)/8
		for _, m := range modes {
			n := scaled(per[m] * w / 2)
			for i := 0; i < n; i++ {
				sc := sampleTyped(rng, p, m, i)
				scs = append(scs, sc)
				scMode = append(scMode, m)
				if id == "C19" && i%4 == 0 {
					r := sc
					r.SkipAlone = true
					raceScs = append(raceScs, r)
				}
			}
		}
	}
	var raceRes []CResult
	var err2 error
	var wg sync.WaitGroup
	if len(raceScs) > 0 && e.CRace != "" {
		wg.Add(1)
		go func() { defer wg.Done(); raceRes, err2 = e.runCAll(e.CRace, raceScs, 20, c.Jobs) }()
	}
	deliver := e.deliverSets()
	learn := map[string]*learnPkg{}
	var vs []core.Violation
	seen := map[string]bool{}
	stats := map[string]*typedStats{}
	opsSeen := map[string]bool{}
	variantsSeen := map[string]bool{}
	distinct := map[string]bool{}
	syncPoints, syncYields := 0, 0
	customCalls, overrideCalls := 0, 0
	optionCalls := map[string]int{}
	configured, fired := map[string]int{}, map[string]int{}
	type failure struct {
		i int
		p problem
		r *CRecord
	}
	var fails []failure
	ids := map[int]string{}
	const chunk = 30000
	for lo := 0; lo < len(scs); lo += chunk {
		res, err1 := e.runCAll(e.CPlain, scs[lo:min(lo+chunk, len(scs))], 40, c.Jobs)
		if err1 != nil {
			wg.Wait()
			return nil, nil, err1
		}
		for j := range res {
			i := lo + j
			r := &res[j]
			pkg := scs[i].Pkg
			if r.ToolTrouble != "" {
				return nil, nil, build.Toolf("typed scenario %s: %s", r.ID, r.ToolTrouble)
			}
			if r.Missing || r.Aborted {
				vs = append(vs, core.Violation{Key: "typed/died/" + pkg, Oracle: "the simulation process survives", What: r.ID + ": " + clip(r.Stderr, 1200), Seed: c.Seed, Scenario: map[string]any{"binary": "corpus-plain", "scenario": scs[i]}})
				continue
			}
			if r.Switches > 0 {
				distinct[r.SchedHash] = true
			}
			syncPoints += r.SyncPoints
			syncYields += r.SyncYields
			st := stats[pkg]
			if st == nil {
				st = &typedStats{}
				stats[pkg] = st
			}
			aloneBy := map[[2]int]*CRecord{}
			var ps []failure
			eval := func(cr *CRecord, conc bool) {
				if cr.T == nil {
					return
				}
				if cr.T.Harness != "" {
					st.HarnessSkipped++
					if strings.HasPrefix(cr.T.Harness, "no client method") && id == "C01" {
						// the Handler interface has the operation, the generated client has no method for it
						ps = append(ps, failure{i, problem{"every operation the server handles can be invoked through the generated client", fmt.Sprintf("%s: %s", cr.Call.TOp, cr.T.Harness), keyOf("typed/no client method/" + pkg + "/" + cr.Call.TOp)}, cr})
					}
					return
				}
				switch id {
				case "C01":
					for _, p := range typedExact(cr, pkg) {
						ps = append(ps, failure{i, p, cr})
					}
					for _, p := range typedDeliver(cr, pkg, deliver[pkg]) {
						ps = append(ps, failure{i, p, cr})
					}
				case "C15":
					for _, p := range typedC15(cr, pkg) {
						ps = append(ps, failure{i, p, cr})
					}
					for _, p := range routingRule(cr, e.matchers(pkg), pkg, scs[i].Prefix, scs[i].CustomNF) {
						ps = append(ps, failure{i, p, cr})
					}
				case "C19":
					if conc {
						for _, p := range typedC19(aloneBy[[2]int{cr.Task, cr.Op}], cr, pkg) {
							ps = append(ps, failure{i, p, cr})
						}
					}
				}
			}
			for _, a := range r.Alone {
				aloneBy[[2]int{a.Task, a.Op}] = a
				if id != "C19" {
					eval(a, false)
				}
				learnFrom(learn, pkg, a)
			}
			for _, cr := range r.Conc {
				st.Calls++
				if cr.T != nil {
					opsSeen[pkg+"."+cr.Call.TOp] = true
					if rs := reachedSide(cr.T); rs != nil {
						st.Reached++
						variantsSeen[pkg+"."+cr.Call.TOp+" "+rs.RespType] = true
					}
					if cr.T.ReqExact {
						st.ReqExact++
					}
					if cr.T.RespExact {
						st.RespExact++
					}
					if cr.T.GotValue {
						st.GotValue++
					}
					if cr.Call.Edge {
						st.Edge++
					}
					st.Defaults += cr.T.Defaults
				}
				for _, sd := range cr.Sides {
					customCalls += sd.CustomNotFound + sd.CustomNotAllow
				}
				if scs[i].Override && cr.T != nil {
					overrideCalls++
				}
				if cr.T != nil && cr.T.OptSel != 0 {
					optionCalls["calls"]++
					for b, n := range []string{"own_client", "server_url", "edit_request", "edit_response"} {
						if cr.T.OptSel&(1<<b) != 0 {
							optionCalls[n]++
						}
					}
				}
				if f := cr.Call.Fault; f != nil {
					configured[f.Kind]++
					if cr.FaultFired {
						fired[f.Kind]++
					}
				}
				eval(cr, true)
			}
			if r.InputChanged != "" && (id == "C19" || id == "C01") {
				ps = append(ps, failure{i, problem{"a value the application owns (an argument of the caller, a response object the handler keeps) is not modified", clip(r.InputChanged, 600), "typed/caller input modified/" + pkg}, nil})
			}
			if id == "C19" && r.Deadlock != "" {
				ps = append(ps, failure{i, problem{"no task blocks forever (bubble deadlock)", clip(r.Deadlock, 1200), "typed/deadlock/" + pkg}, nil})
			}
			if len(ps) > 0 {
				ids[i] = r.ID
			}
			fails = append(fails, ps...)
		}
	}
	wg.Wait()
	if err2 != nil {
		return nil, nil, err2
	}
	if p := os.Getenv("VERIF_TYPED_LEARN"); p != "" {
		for _, pk := range pkgs {
			if l := learn[pk.Name]; l != nil {
				l.Spec, l.SHA = specKey(pk.Spec), pk.SpecSHA
			}
		}
		b, _ := json.MarshalIndent(learn, "", " ")
		_ = os.WriteFile(p, b, 0o644)
	}
	sort.SliceStable(fails, func(i, j int) bool { return fails[i].p.Key < fails[j].p.Key })
	minimised := 0
	for _, f := range fails {
		if seen[f.p.Key] {
			continue
		}
		seen[f.p.Key] = true
		sc := scs[f.i]
		note := ""
		if f.r != nil && minimised < 8 {
			minimised++
			if m, ok := e.minimiseTyped(id, sc, f.r, f.p.Key, deliver); ok {
				sc = m
				note = " (minimised to 1 call)"
			}
		}
		vs = append(vs, core.Violation{Key: f.p.Key, Oracle: f.p.Oracle, What: ids[f.i] + ": " + clip(f.p.What, 1100) + note, Seed: c.Seed, Scenario: map[string]any{"binary": "corpus-plain", "scenario": sc}})
	}
	raceReports := 0
	for i := range raceRes {
		for _, rep := range raceRes[i].Races {
			raceReports++
			key := "typed/race " + raceKey(rep)
			if seen[key] {
				continue
			}
			seen[key] = true
			vs = append(vs, core.Violation{Key: key, Oracle: "no data race between concurrent calls (race detector on the seeded schedule)", What: raceRes[i].ID + ": " + clip(rep, 1500), Seed: c.Seed, Scenario: map[string]any{"binary": "corpus-race", "scenario": raceScs[i]}})
		}
	}
	demanded := 0
	for _, d := range deliver {
		demanded += len(d.req) + len(d.resp)
	}
	info := map[string]any{
		"packages": len(pkgs), "runs": len(scs), "race_runs": len(raceScs), "race_reports": raceReports,
		"per_package": stats, "operations_exercised": len(opsSeen), "operation_response_variants_reached": len(variantsSeen),
		"delivery_demanded_for": demanded, "distinct_schedules": len(distinct), "sync_operation_points": syncPoints, "sync_operation_preemptions": syncYields,
		"fault_kinds_configured": configured, "fault_kinds_fired": fired,
		"configured_not_found_or_method_not_allowed_handler_ran": customCalls, "calls_with_overridden_server_url": overrideCalls, "calls_with_per_call_request_options": optionCalls,
		"rule": "values of the generated request, parameter and response types are made by reflection from the call's seed (core domain: short alphanumeric text, small numbers, whole-second UTC times, 1-3 element arrays; edge: delimiters, empty text and arrays, extremes of every numeric width, far instants); the handler's, the middleware's and the caller's copies are compared as trees with what was supplied",
	}
	return vs, info, nil
}

// minimiseTyped re-runs the failing call on its own; if the same failure shows, that is the replay scenario.
func (e *Engine) minimiseTyped(id string, sc CScenario, r *CRecord, key string, deliver map[string]*deliverSet) (CScenario, bool) {
	if id == "C19" {
		return sc, false
	}
	m := sc
	m.ID += "/min"
	m.Tasks = [][]RawCall{{r.Call}}
	res, err := e.runCJob(e.CPlain, []CScenario{m})
	if err != nil || len(res) != 1 || res[0].Missing {
		return sc, false
	}
	var ps []problem
	for _, recs := range [][]*CRecord{res[0].Alone, res[0].Conc} {
		for _, cr := range recs {
			switch id {
			case "C01":
				ps = append(ps, typedExact(cr, sc.Pkg)...)
				ps = append(ps, typedDeliver(cr, sc.Pkg, deliver[sc.Pkg])...)
			case "C15":
				ps = append(ps, typedC15(cr, sc.Pkg)...)
				ps = append(ps, routingRule(cr, e.matchers(sc.Pkg), sc.Pkg, sc.Prefix, sc.CustomNF)...)
			}
		}
	}
	for _, p := range ps {
		if p.Key == key {
			return m, true
		}
	}
	return sc, false
}

// ---- learning which operations are deliverable (development aid: VERIF_TYPED_LEARN=<file>)

type learnOp struct {
	Core, Reached int
	Resp          map[string][2]int // variant -> (returned by the handler, received by the caller)
	Why           string            `json:",omitempty"`
}

type learnPkg struct {
	Spec, SHA string
	Ops       map[string]*learnOp
}

func learnFrom(learn map[string]*learnPkg, pkg string, r *CRecord) {
	if r.T == nil || !mustBeDeliverable(&r.Call) || r.T.Harness != "" || r.Call.Fault != nil {
		return
	}
	l := learn[pkg]
	if l == nil {
		l = &learnPkg{Ops: map[string]*learnOp{}}
		learn[pkg] = l
	}
	o := l.Ops[opKey(&r.Call)]
	if o == nil {
		o = &learnOp{Resp: map[string][2]int{}}
		l.Ops[opKey(&r.Call)] = o
	}
	o.Core++
	rs := reachedSide(r.T)
	if rs == nil {
		if o.Why == "" {
			o.Why = clip(r.ClientErr, 200)
			if len(r.Sides) > 0 && r.Sides[0].ErrBody != "" {
				o.Why += " | " + clip(r.Sides[0].ErrBody, 250)
			}
		}
		return
	}
	o.Reached++
	c := o.Resp[rs.RespType]
	c[0]++
	if r.T.GotValue {
		c[1]++
	} else if o.Why == "" {
		o.Why = rs.RespType + ": " + clip(r.ClientErr, 200)
	}
	o.Resp[rs.RespType] = c
}

// ---- exported for the determinism self-test

// TypedPackages lists the corpus packages that carry the typed glue.
func (e *Engine) TypedPackages() []CorpusPkg {
	var out []CorpusPkg
	for _, p := range e.Corpus {
		if len(p.Ops) > 0 {
			out = append(out, p)
		}
	}
	return out
}

// SampleTyped draws one typed corpus scenario; SampleRaw one raw corpus scenario.
func SampleTyped(rng *rand.Rand, pkg CorpusPkg, mode Mode, i int) CScenario {
	return sampleTyped(rng, pkg, mode, i)
}
func SampleRaw(rng *rand.Rand, pkg CorpusPkg, mode Mode, i int) CScenario {
	return sampleCScenario(rng, pkg, mode, i)
}

// RunCorpus executes corpus scenarios in the plain or race build.
func (e *Engine) RunCorpus(race bool, scs []CScenario, perProc, jobs int) ([]CResult, error) {
	bin := e.CPlain
	if race {
		bin = e.CRace
	}
	return e.runCAll(bin, scs, perProc, jobs)
}

// FingerprintC is everything observable about a corpus run.
func FingerprintC(r *CResult) string {
	b, _ := json.Marshal(r)
	return string(b)
}

// matchers returns (and caches) the route matchers of a corpus package.
func (e *Engine) matchers(pkg string) []routeMatcher {
	e.mu.Lock()
	defer e.mu.Unlock()
	if e.routeMatchers == nil {
		e.routeMatchers = map[string][]routeMatcher{}
	}
	if m, ok := e.routeMatchers[pkg]; ok {
		return m
	}
	var m []routeMatcher
	for _, p := range e.Corpus {
		if p.Name == pkg {
			m = newRouteMatchers(p.Routes)
		}
	}
	e.routeMatchers[pkg] = m
	return m
}
