package xch

import (
	"crypto/sha256"
	"encoding/hex"
	"encoding/json"
	"fmt"
	"go/ast"
	"go/parser"
	"go/token"
	"os"
	"path/filepath"
	"regexp"
	"sort"
	"strings"
	"sync"

	"verif/internal/build"
	"verif/internal/simbuild"
)

// The corpus driver (DESIGN.md section 4, C15/C19 "breadth"): servers regenerated from the repository's
// corpus specs are driven with raw requests synthesised from their route tables, with no typed harness:
// the stub UnimplementedHandler answers, an accept-all SecurityHandler is generated from the interface's
// method set, and a generic middleware records "about to invoke the handler".

// Route is one operation of a corpus server.
type Route struct {
	Method string `json:"method"`
	Path   string `json:"path"` // template
	Op     string `json:"op"`   // Handler method (= operation name the middleware sees)
}

// CorpusPkg is one regenerated corpus server.
type CorpusPkg struct {
	Name   string  `json:"name"`
	Spec   string  `json:"spec"`
	Routes []Route `json:"routes"`
	// StubErrors: the spec has a common default response ("convenient errors"), so failures of the security
	// stage and of the handler are turned into responses by Handler.NewError - here the stub's, which returns
	// a zero value. Statuses produced that way say nothing about ogen.
	StubErrors bool `json:"stub_errors"`
	// Ops: the operations (Handler methods) when the package also got the typed glue (client and server).
	Ops []string `json:"ops,omitempty"`
	// SpecSHA identifies the document the package was generated from.
	SpecSHA string `json:"spec_sha,omitempty"`
}

const corpusConfig = "parser:\n  infer_types: true\n  allow_remote: true\ngenerator:\n  ignore_not_implemented: [\"all\"]\n"

var nonIdent = regexp.MustCompile(`[^a-z0-9]+`)

// corpusSpecs lists the corpus documents small enough to be compiled into the simulation binary.
func corpusSpecs(src string, maxSize int64, limit int) []string {
	var out []string
	for _, dir := range []string{"_testdata/positive", "_testdata/examples"} {
		ents, _ := os.ReadDir(filepath.Join(src, dir))
		for _, e := range ents {
			n := e.Name()
			if e.IsDir() || !(strings.HasSuffix(n, ".json") || strings.HasSuffix(n, ".yml") || strings.HasSuffix(n, ".yaml")) {
				continue
			}
			fi, err := e.Info()
			if err != nil || fi.Size() == 0 || fi.Size() > maxSize {
				continue
			}
			out = append(out, filepath.Join(dir, n))
		}
	}
	sort.Strings(out)
	if limit > 0 && len(out) > limit {
		// the documents written to cover ogen's features first, then a spread over the rest of the list
		pick := map[string]bool{}
		for _, p := range preferredSpecs {
			for _, o := range out {
				if o == p {
					pick[o] = true
				}
			}
		}
		for i := 0; i < limit; i++ {
			pick[out[i*len(out)/limit]] = true
		}
		var sel []string
		for _, o := range out {
			if pick[o] {
				sel = append(sel, o)
			}
		}
		out = sel
	}
	return out
}

// preferredSpecs are in every tier: the repository's own feature-matrix documents.
var preferredSpecs = []string{
	"_testdata/positive/parameters.json", "_testdata/positive/http_requests.json", "_testdata/positive/http_responses.json",
	"_testdata/positive/form.json", "_testdata/positive/sample.json",
}

var routeRe = regexp.MustCompile(`^\t// (GET|POST|PUT|DELETE|PATCH|HEAD|OPTIONS|TRACE) (/\S*)$`)

// prepareCorpus regenerates the corpus servers into the harness module (before instrumentation) and
// returns those that generated; compile failures are weeded out later by weedCorpus.
func prepareCorpus(s *build.Scratch, specs []string) ([]CorpusPkg, map[string]string) {
	h := simbuild.HarnessDir(s)
	skipped := map[string]string{}
	var pkgs []CorpusPkg
	work := filepath.Join(s.Dir, "genwork")
	_ = os.MkdirAll(work, 0o755)
	_ = os.WriteFile(filepath.Join(work, "corpus.yml"), []byte(corpusConfig), 0o644)
	_ = os.WriteFile(filepath.Join(work, "matrix.yml"), []byte(matrixConfig), 0o644)
	_ = os.WriteFile(filepath.Join(work, "matrix_b.yml"), []byte(matrixConfigB), 0o644)
	var mu sync.Mutex
	var wg sync.WaitGroup
	sem := make(chan struct{}, 8)
	for _, rel := range specs {
		wg.Add(1)
		sem <- struct{}{}
		go func(rel string) {
			defer wg.Done()
			defer func() { <-sem }()
			name := "c" + strings.Trim(nonIdent.ReplaceAllString(strings.ToLower(strings.TrimSuffix(filepath.Base(rel), filepath.Ext(rel))), "_"), "_")
			target := filepath.Join(h, "cx", name)
			_ = os.MkdirAll(target, 0o755)
			cfg := "corpus.yml"
			if strings.HasPrefix(filepath.Base(rel), "mx_") && filepath.IsAbs(rel) {
				cfg = "matrix.yml"
				if strings.HasSuffix(strings.TrimSuffix(filepath.Base(rel), filepath.Ext(rel)), "_b") {
					cfg = "matrix_b.yml"
				}
			}
			r := s.Run(work, 0, nil, filepath.Join(s.Bin, "ogen"), "--config", cfg, "--target", target, "--package", "api", "--clean", specPath(s, rel))
			mu.Lock()
			defer mu.Unlock()
			if r.Err != nil || r.Exit != 0 {
				skipped[rel] = "does not generate"
				_ = os.RemoveAll(target)
				return
			}
			routes, hasServer, stubErrors, err := glue(target)
			if err != nil || !hasServer || len(routes) == 0 {
				skipped[rel] = "no path server in the generated package"
				_ = os.RemoveAll(target)
				return
			}
			cp := CorpusPkg{Name: name, Spec: rel, Routes: routes, StubErrors: stubErrors}
			if ti, err := glueTyped(target); err == nil && ti != nil {
				cp.Ops = ti.Ops
			} else if err != nil {
				skipped[rel+" (typed glue)"] = err.Error()
			}
			if b, err := os.ReadFile(specPath(s, rel)); err == nil {
				h := sha256.Sum256(b)
				cp.SpecSHA = hex.EncodeToString(h[:])
			}
			pkgs = append(pkgs, cp)
		}(rel)
	}
	wg.Wait()
	sort.Slice(pkgs, func(i, j int) bool { return pkgs[i].Name < pkgs[j].Name })
	return pkgs, skipped
}

// glue writes zz_sim_glue.go into a generated package: a constructor that needs no typed harness.
func glue(dir string) (_ []Route, hasServer, stubErrors bool, _ error) {
	fset := token.NewFileSet()
	var routes []Route
	hasNewServer, hasSec, hasUnimpl := false, false, false
	var secMethods, secArgs []string
	ents, _ := os.ReadDir(dir)
	for _, e := range ents {
		if !strings.HasSuffix(e.Name(), ".go") || strings.HasSuffix(e.Name(), "_test.go") {
			continue
		}
		p := filepath.Join(dir, e.Name())
		src, err := os.ReadFile(p)
		if err != nil {
			return nil, false, false, err
		}
		f, err := parser.ParseFile(fset, p, src, parser.ParseComments)
		if err != nil {
			return nil, false, false, err
		}
		if strings.Contains(string(src), "func (UnimplementedHandler) NewError(") {
			stubErrors = true
		}
		if e.Name() == "oas_server_gen.go" {
			var pending *Route
			for _, l := range strings.Split(string(src), "\n") {
				if m := routeRe.FindStringSubmatch(l); m != nil {
					pending = &Route{Method: m[1], Path: m[2]}
					continue
				}
				if pending != nil && !strings.HasPrefix(strings.TrimSpace(l), "//") {
					// the declaration the comment belongs to: "\tName(ctx context.Context, ..."
					if i := strings.Index(l, "("); i > 0 {
						pending.Op = strings.TrimSpace(l[:i])
					}
					routes = append(routes, *pending)
					pending = nil
				}
			}
		}
		for _, d := range f.Decls {
			switch x := d.(type) {
			case *ast.FuncDecl:
				if x.Recv == nil && x.Name.Name == "NewServer" {
					hasNewServer = true
				}
			case *ast.GenDecl:
				for _, sp := range x.Specs {
					ts, ok := sp.(*ast.TypeSpec)
					if !ok {
						continue
					}
					if ts.Name.Name == "UnimplementedHandler" {
						hasUnimpl = true
					}
					if it, ok := ts.Type.(*ast.InterfaceType); ok && ts.Name.Name == "SecurityHandler" {
						hasSec = true
						for _, m := range it.Methods.List {
							if len(m.Names) != 1 {
								continue
							}
							ft, ok := m.Type.(*ast.FuncType)
							if !ok {
								continue
							}
							sig := string(src[fset.Position(ft.Pos()).Offset:fset.Position(ft.End()).Offset])
							secMethods = append(secMethods, m.Names[0].Name+strings.TrimPrefix(sig, "func"))
							last := "nil"
							if n := len(ft.Params.List); n > 0 && len(ft.Params.List[n-1].Names) > 0 {
								last = ft.Params.List[n-1].Names[len(ft.Params.List[n-1].Names)-1].Name
							}
							secArgs = append(secArgs, last)
						}
					}
				}
			}
		}
	}
	if !hasNewServer || !hasUnimpl {
		return routes, false, stubErrors, nil
	}
	// dedupe routes (webhook comments do not start with a slash path, so they are not in the list)
	seen := map[string]bool{}
	var rs []Route
	for _, r := range routes {
		k := r.Method + " " + r.Path
		if !seen[k] {
			seen[k] = true
			rs = append(rs, r)
		}
	}
	var sb strings.Builder
	sb.WriteString("// Written by the verification framework's corpus driver; not generated by ogen.\n\npackage api\n\nimport (\n\t\"context\"\n\t\"net/http\"\n)\n\nvar _ context.Context\n\n")
	if hasSec {
		sb.WriteString("// simSec accepts every credential and shows it to the harness.\ntype simSec struct {\n\tsaw func(ctx context.Context, cred any) error\n}\n\n")
		for i, m := range secMethods {
			fmt.Fprintf(&sb, "func (s simSec) %s {\n\tif s.saw != nil {\n\t\tif err := s.saw(ctx, %s); err != nil {\n\t\t\treturn ctx, err\n\t\t}\n\t}\n\treturn ctx, nil\n}\n\n", m, secArgs[i])
		}
		sb.WriteString("// SimNewServer builds the server with the stub handler, an accept-all security handler and one middleware.\nfunc SimNewServer(eh func(context.Context, http.ResponseWriter, *http.Request, error), mw ...Middleware) (http.Handler, error) {\n\treturn NewServer(UnimplementedHandler{}, simSec{}, WithMiddleware(mw...), WithErrorHandler(eh))\n}\n")
	} else {
		sb.WriteString("// SimNewServer builds the server with the stub handler and one middleware.\nfunc SimNewServer(eh func(context.Context, http.ResponseWriter, *http.Request, error), mw ...Middleware) (http.Handler, error) {\n\treturn NewServer(UnimplementedHandler{}, WithMiddleware(mw...), WithErrorHandler(eh))\n}\n")
	}
	return rs, true, stubErrors, os.WriteFile(filepath.Join(dir, "zz_sim_glue.go"), []byte(sb.String()), 0o644)
}

// weedCorpus compiles every corpus package on its own and drops those that do not build (that is C02's
// business, not this check's); it then writes the registry of the csim harness.
func weedCorpus(s *build.Scratch, pkgs []CorpusPkg, skipped map[string]string) ([]CorpusPkg, error) {
	h := simbuild.HarnessDir(s)
	ok := make([]bool, len(pkgs))
	typedDropped := make([]string, len(pkgs))
	var wg sync.WaitGroup
	sem := make(chan struct{}, 8)
	for i, p := range pkgs {
		wg.Add(1)
		sem <- struct{}{}
		go func(i int, p CorpusPkg) {
			defer wg.Done()
			defer func() { <-sem }()
			r := s.Run(h, 0, nil, string(build.GoSim), "build", "./cx/"+p.Name)
			ok[i] = r.Err == nil && r.Exit == 0
			if tg := filepath.Join(h, "cx", p.Name, "zz_sim_typed.go"); !ok[i] && len(p.Ops) > 0 {
				// the typed glue may be what does not compile (a shape it does not know): fall back to the raw driver
				_ = os.Remove(tg)
				r2 := s.Run(h, 0, nil, string(build.GoSim), "build", "./cx/"+p.Name)
				if ok[i] = r2.Err == nil && r2.Exit == 0; ok[i] {
					typedDropped[i] = tail(string(r.Stderr)+string(r.Stdout), 600)
				}
			}
		}(i, p)
	}
	wg.Wait()
	var keep []CorpusPkg
	for i, p := range pkgs {
		if typedDropped[i] != "" {
			p.Ops = nil
			skipped[p.Spec+" (typed glue)"] = "does not compile: " + typedDropped[i]
		}
		if ok[i] {
			keep = append(keep, p)
		} else {
			skipped[p.Spec] = "generated package does not compile"
			_ = os.RemoveAll(filepath.Join(h, "cx", p.Name))
		}
	}
	var sb strings.Builder
	sb.WriteString("package xsim\n\nimport (\n\t\"context\"\n\t\"net/http\"\n\n\t\"github.com/ogen-go/ogen/middleware\"\n\n")
	for _, p := range keep {
		fmt.Fprintf(&sb, "\t%s \"simh/cx/%s\"\n", p.Name, p.Name)
	}
	sb.WriteString(")\n\n// servers maps a corpus package to its constructor.\nvar servers = map[string]func(func(context.Context, http.ResponseWriter, *http.Request, error), ...middleware.Middleware) (http.Handler, error){\n")
	for _, p := range keep {
		fmt.Fprintf(&sb, "\t%q: %s.SimNewServer,\n", p.Name, p.Name)
	}
	sb.WriteString("}\n\n// typedPkgs maps a corpus package to its typed glue.\nvar typedPkgs = map[string]*typedPkg{\n")
	for _, p := range keep {
		if len(p.Ops) > 0 {
			fmt.Fprintf(&sb, "\t%q: {New: %s.SimTypedNew, Impls: %s.SimImpls, Ops: %s.SimOps, Webhooks: %s.SimWebhooks, WithURL: %s.SimWithServerURL, Label: %s.SimLabel, ReqOpts: %s.SimReqOpts},\n", p.Name, p.Name, p.Name, p.Name, p.Name, p.Name, p.Name, p.Name)
		}
	}
	sb.WriteString("}\n")
	if err := os.WriteFile(filepath.Join(h, "csim", "registry_gen.go"), []byte(sb.String()), 0o644); err != nil {
		return nil, build.Toolf("%v", err)
	}
	return keep, nil
}

func specPath(s *build.Scratch, rel string) string {
	if filepath.IsAbs(rel) {
		return rel
	}
	return filepath.Join(s.Src, rel)
}

// derivedSpecs writes documents cut out of corpus documents that are too large to be compiled whole:
// format_gen.json (every primitive format as query parameter, JSON request and JSON response) is reduced
// to its three aggregate operations, and to fixed samples of its per-format operations. A derived document
// is a pure function of the source document and the sample index.
func derivedSpecs(s *build.Scratch, samples int) []string {
	src := filepath.Join(s.Src, "_testdata/positive/format_gen.json")
	b, err := os.ReadFile(src)
	if err != nil {
		return nil
	}
	var doc map[string]json.RawMessage
	if json.Unmarshal(b, &doc) != nil {
		return nil
	}
	var paths map[string]json.RawMessage
	if json.Unmarshal(doc["paths"], &paths) != nil {
		return nil
	}
	dir := filepath.Join(s.Dir, "genwork", "derived")
	_ = os.MkdirAll(dir, 0o755)
	var names []string
	for k := range paths {
		names = append(names, k)
	}
	sort.Strings(names)
	write := func(name string, keep []string) string {
		sub := map[string]json.RawMessage{}
		for _, k := range keep {
			if v, ok := paths[k]; ok {
				sub[k] = v
			}
		}
		if len(sub) == 0 {
			return ""
		}
		d2 := map[string]json.RawMessage{}
		for k, v := range doc {
			d2[k] = v
		}
		d2["paths"], _ = json.Marshal(sub)
		out, _ := json.Marshal(d2)
		p := filepath.Join(dir, name+".json")
		if os.WriteFile(p, out, 0o644) != nil {
			return ""
		}
		return p
	}
	var out []string
	if p := write("fmt_core", []string{"/test_query_parameter", "/test_request_FormatTest", "/test_response_FormatTest"}); p != "" {
		out = append(out, p)
	}
	var rest []string
	for _, k := range names {
		if k != "/test_query_parameter" && k != "/test_request_FormatTest" && k != "/test_response_FormatTest" {
			rest = append(rest, k)
		}
	}
	for i := 0; i < samples && len(rest) > 0; i++ {
		var keep []string
		for j := i; j < len(rest); j += 17 { // every 17th operation, starting at i: 60 operations per sample
			keep = append(keep, rest[j])
		}
		if p := write(fmt.Sprintf("fmt_s%02d", i), keep); p != "" {
			out = append(out, p)
		}
	}
	return out
}
