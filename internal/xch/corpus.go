package xch

import (
	"fmt"
	"go/ast"
	"go/parser"
	"go/token"
	"os"
	"path/filepath"
	"regexp"
	"sort"
	"strings"
	"sync"

	"verif/internal/build"
	"verif/internal/simbuild"
)

// The corpus driver (DESIGN.md section 4, C15/C19 "breadth"): servers regenerated from the repository's
// corpus specs are driven with raw requests synthesised from their route tables, with no typed harness:
// the stub UnimplementedHandler answers, an accept-all SecurityHandler is generated from the interface's
// method set, and a generic middleware records "about to invoke the handler".

// Route is one operation of a corpus server.
type Route struct {
	Method string `json:"method"`
	Path   string `json:"path"` // template
}

// CorpusPkg is one regenerated corpus server.
type CorpusPkg struct {
	Name   string  `json:"name"`
	Spec   string  `json:"spec"`
	Routes []Route `json:"routes"`
	// StubErrors: the spec has a common default response ("convenient errors"), so failures of the security
	// stage and of the handler are turned into responses by Handler.NewError - here the stub's, which returns
	// a zero value. Statuses produced that way say nothing about ogen.
	StubErrors bool `json:"stub_errors"`
}

const corpusConfig = "parser:\n  infer_types: true\n  allow_remote: true\ngenerator:\n  ignore_not_implemented: [\"all\"]\n"

var nonIdent = regexp.MustCompile(`[^a-z0-9]+`)

// corpusSpecs lists the corpus documents small enough to be compiled into the simulation binary.
func corpusSpecs(src string, maxSize int64, limit int) []string {
	var out []string
	for _, dir := range []string{"_testdata/positive", "_testdata/examples"} {
		ents, _ := os.ReadDir(filepath.Join(src, dir))
		for _, e := range ents {
			n := e.Name()
			if e.IsDir() || !(strings.HasSuffix(n, ".json") || strings.HasSuffix(n, ".yml") || strings.HasSuffix(n, ".yaml")) {
				continue
			}
			fi, err := e.Info()
			if err != nil || fi.Size() == 0 || fi.Size() > maxSize {
				continue
			}
			out = append(out, filepath.Join(dir, n))
		}
	}
	sort.Strings(out)
	if limit > 0 && len(out) > limit {
		// a spread over the list rather than its head
		var pick []string
		for i := 0; i < limit; i++ {
			pick = append(pick, out[i*len(out)/limit])
		}
		out = pick
	}
	return out
}

var routeRe = regexp.MustCompile(`^\t// (GET|POST|PUT|DELETE|PATCH|HEAD|OPTIONS|TRACE) (/\S*)$`)

// prepareCorpus regenerates the corpus servers into the harness module (before instrumentation) and
// returns those that generated; compile failures are weeded out later by weedCorpus.
func prepareCorpus(s *build.Scratch, specs []string) ([]CorpusPkg, map[string]string) {
	h := simbuild.HarnessDir(s)
	skipped := map[string]string{}
	var pkgs []CorpusPkg
	work := filepath.Join(s.Dir, "genwork")
	_ = os.MkdirAll(work, 0o755)
	_ = os.WriteFile(filepath.Join(work, "corpus.yml"), []byte(corpusConfig), 0o644)
	var mu sync.Mutex
	var wg sync.WaitGroup
	sem := make(chan struct{}, 8)
	for _, rel := range specs {
		wg.Add(1)
		sem <- struct{}{}
		go func(rel string) {
			defer wg.Done()
			defer func() { <-sem }()
			name := "c" + strings.Trim(nonIdent.ReplaceAllString(strings.ToLower(strings.TrimSuffix(filepath.Base(rel), filepath.Ext(rel))), "_"), "_")
			target := filepath.Join(h, "cx", name)
			_ = os.MkdirAll(target, 0o755)
			r := s.Run(work, 0, nil, filepath.Join(s.Bin, "ogen"), "--config", "corpus.yml", "--target", target, "--package", "api", "--clean", filepath.Join(s.Src, rel))
			mu.Lock()
			defer mu.Unlock()
			if r.Err != nil || r.Exit != 0 {
				skipped[rel] = "does not generate"
				_ = os.RemoveAll(target)
				return
			}
			routes, hasServer, stubErrors, err := glue(target)
			if err != nil || !hasServer || len(routes) == 0 {
				skipped[rel] = "no path server in the generated package"
				_ = os.RemoveAll(target)
				return
			}
			pkgs = append(pkgs, CorpusPkg{Name: name, Spec: rel, Routes: routes, StubErrors: stubErrors})
		}(rel)
	}
	wg.Wait()
	sort.Slice(pkgs, func(i, j int) bool { return pkgs[i].Name < pkgs[j].Name })
	return pkgs, skipped
}

// glue writes zz_sim_glue.go into a generated package: a constructor that needs no typed harness.
func glue(dir string) (_ []Route, hasServer, stubErrors bool, _ error) {
	fset := token.NewFileSet()
	var routes []Route
	hasNewServer, hasSec, hasUnimpl := false, false, false
	var secMethods []string
	ents, _ := os.ReadDir(dir)
	for _, e := range ents {
		if !strings.HasSuffix(e.Name(), ".go") || strings.HasSuffix(e.Name(), "_test.go") {
			continue
		}
		p := filepath.Join(dir, e.Name())
		src, err := os.ReadFile(p)
		if err != nil {
			return nil, false, false, err
		}
		f, err := parser.ParseFile(fset, p, src, parser.ParseComments)
		if err != nil {
			return nil, false, false, err
		}
		if strings.Contains(string(src), "func (UnimplementedHandler) NewError(") {
			stubErrors = true
		}
		if e.Name() == "oas_server_gen.go" {
			for _, l := range strings.Split(string(src), "\n") {
				if m := routeRe.FindStringSubmatch(l); m != nil {
					routes = append(routes, Route{Method: m[1], Path: m[2]})
				}
			}
		}
		for _, d := range f.Decls {
			switch x := d.(type) {
			case *ast.FuncDecl:
				if x.Recv == nil && x.Name.Name == "NewServer" {
					hasNewServer = true
				}
			case *ast.GenDecl:
				for _, sp := range x.Specs {
					ts, ok := sp.(*ast.TypeSpec)
					if !ok {
						continue
					}
					if ts.Name.Name == "UnimplementedHandler" {
						hasUnimpl = true
					}
					if it, ok := ts.Type.(*ast.InterfaceType); ok && ts.Name.Name == "SecurityHandler" {
						hasSec = true
						for _, m := range it.Methods.List {
							if len(m.Names) != 1 {
								continue
							}
							ft, ok := m.Type.(*ast.FuncType)
							if !ok {
								continue
							}
							sig := string(src[fset.Position(ft.Pos()).Offset:fset.Position(ft.End()).Offset])
							secMethods = append(secMethods, m.Names[0].Name+strings.TrimPrefix(sig, "func"))
						}
					}
				}
			}
		}
	}
	if !hasNewServer || !hasUnimpl {
		return routes, false, stubErrors, nil
	}
	// dedupe routes (webhook comments do not start with a slash path, so they are not in the list)
	seen := map[string]bool{}
	var rs []Route
	for _, r := range routes {
		k := r.Method + " " + r.Path
		if !seen[k] {
			seen[k] = true
			rs = append(rs, r)
		}
	}
	var sb strings.Builder
	sb.WriteString("// Written by the verification framework's corpus driver; not generated by ogen.\n\npackage api\n\nimport (\n\t\"context\"\n\t\"net/http\"\n)\n\nvar _ context.Context\n\n")
	if hasSec {
		sb.WriteString("type simSec struct{}\n\n")
		for _, m := range secMethods {
			fmt.Fprintf(&sb, "func (simSec) %s {\n\treturn ctx, nil\n}\n\n", m)
		}
		sb.WriteString("// SimNewServer builds the server with the stub handler, an accept-all security handler and one middleware.\nfunc SimNewServer(mw Middleware) (http.Handler, error) {\n\treturn NewServer(UnimplementedHandler{}, simSec{}, WithMiddleware(mw))\n}\n")
	} else {
		sb.WriteString("// SimNewServer builds the server with the stub handler and one middleware.\nfunc SimNewServer(mw Middleware) (http.Handler, error) {\n\treturn NewServer(UnimplementedHandler{}, WithMiddleware(mw))\n}\n")
	}
	return rs, true, stubErrors, os.WriteFile(filepath.Join(dir, "zz_sim_glue.go"), []byte(sb.String()), 0o644)
}

// weedCorpus compiles every corpus package on its own and drops those that do not build (that is C02's
// business, not this check's); it then writes the registry of the csim harness.
func weedCorpus(s *build.Scratch, pkgs []CorpusPkg, skipped map[string]string) ([]CorpusPkg, error) {
	h := simbuild.HarnessDir(s)
	ok := make([]bool, len(pkgs))
	var wg sync.WaitGroup
	sem := make(chan struct{}, 8)
	for i, p := range pkgs {
		wg.Add(1)
		sem <- struct{}{}
		go func(i int, p CorpusPkg) {
			defer wg.Done()
			defer func() { <-sem }()
			r := s.Run(h, 0, nil, string(build.GoSim), "build", "./cx/"+p.Name)
			ok[i] = r.Err == nil && r.Exit == 0
		}(i, p)
	}
	wg.Wait()
	var keep []CorpusPkg
	for i, p := range pkgs {
		if ok[i] {
			keep = append(keep, p)
		} else {
			skipped[p.Spec] = "generated package does not compile"
			_ = os.RemoveAll(filepath.Join(h, "cx", p.Name))
		}
	}
	var sb strings.Builder
	sb.WriteString("package xsim\n\nimport (\n\t\"net/http\"\n\n\t\"github.com/ogen-go/ogen/middleware\"\n\n")
	for _, p := range keep {
		fmt.Fprintf(&sb, "\t%s \"simh/cx/%s\"\n", p.Name, p.Name)
	}
	sb.WriteString(")\n\n// servers maps a corpus package to its constructor.\nvar servers = map[string]func(middleware.Middleware) (http.Handler, error){\n")
	for _, p := range keep {
		fmt.Fprintf(&sb, "\t%q: %s.SimNewServer,\n", p.Name, p.Name)
	}
	sb.WriteString("}\n")
	if err := os.WriteFile(filepath.Join(h, "csim", "registry_gen.go"), []byte(sb.String()), 0o644); err != nil {
		return nil, build.Toolf("%v", err)
	}
	return keep, nil
}
