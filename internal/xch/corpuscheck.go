package xch

import (
	"bufio"
	"encoding/json"
	"fmt"
	"math/rand"
	"net/url"
	"os"
	"path/filepath"
	"regexp"
	"strings"
	"sync"
	"time"

	"verif/internal/build"
	"verif/internal/core"
)

// ---- mirror of simsrc/csim types

type RawCall struct {
	Method string            `json:"method"`
	Path   string            `json:"path"`
	Query  string            `json:"query,omitempty"`
	Header map[string]string `json:"header,omitempty"`
	CT     string            `json:"ct,omitempty"`
	Body   string            `json:"body,omitempty"`
	Fault  *Fault            `json:"fault,omitempty"`
	TOp    string            `json:"top,omitempty"`
	V      uint64            `json:"v,omitempty"`
	Edge   bool              `json:"edge,omitempty"`
}

type CScenario struct {
	World      string      `json:"world"`
	ID         string      `json:"id"`
	Pkg        string      `json:"pkg"`
	Seed       uint64      `json:"seed"`
	Tasks      [][]RawCall `json:"tasks"`
	YieldP     float64     `json:"yield_p"`
	MaxDelay   int         `json:"max_delay"`
	MinChunk   int         `json:"min_chunk"`
	MaxChunk   int         `json:"max_chunk"`
	PoolPolicy int         `json:"pool_policy"`
	Poison     bool        `json:"poison"`
	Procs      int         `json:"gomaxprocs"`
	MapPolicy  int         `json:"map_policy"`
	SkipAlone  bool        `json:"skip_alone,omitempty"`
	Typed      bool        `json:"typed,omitempty"`
	Prefix     string      `json:"prefix,omitempty"`
	Override   bool        `json:"override,omitempty"`
	CustomNF   bool        `json:"custom_nf,omitempty"`
	SharedResp bool        `json:"shared_resp,omitempty"`
	Literals   []string    `json:"literals,omitempty"`
}

type CRecord struct {
	Task       int           `json:"task"`
	Op         int           `json:"op"`
	Call       RawCall       `json:"call"`
	FaultFired bool          `json:"fault_fired"`
	Sides      []*ServerSide `json:"sides"`
	Returned   bool          `json:"returned"`
	ClientErr  string        `json:"client_err,omitempty"`
	Status     int           `json:"status"`
	BodySum    string        `json:"body_sum,omitempty"`
	BodyLen    int           `json:"body_len"`
	ReqCT      string        `json:"req_ct,omitempty"`
	ReqMethod  string        `json:"req_method,omitempty"`
	ReqPath    string        `json:"req_path,omitempty"`
	T          *TypedRec     `json:"typed,omitempty"`
}

type CResult struct {
	Aborted      bool       `json:"aborted,omitempty"`
	ID           string     `json:"id"`
	Alone        []*CRecord `json:"alone,omitempty"`
	Conc         []*CRecord `json:"conc"`
	Deadlock     string     `json:"deadlock,omitempty"`
	InputChanged string     `json:"input_changed,omitempty"`
	ToolTrouble  string     `json:"tool_trouble,omitempty"`
	Yields       int        `json:"yields"`
	SyncPoints   int        `json:"sync_points"`
	SyncYields   int        `json:"sync_yields"`
	SchedHash    string     `json:"sched_hash"`
	Switches     int        `json:"switches"`
	FakeNS       int64      `json:"fake_ns"`

	Races   []string `json:"-"`
	Missing bool     `json:"-"`
	Stderr  string   `json:"-"`
}

func (e *Engine) runCJob(bin string, scs []CScenario) ([]CResult, error) {
	e.mu.Lock()
	e.jobSeq++
	n := e.jobSeq
	e.mu.Unlock()
	dir := filepath.Join(e.S.Dir, "jobs")
	_ = os.MkdirAll(dir, 0o755)
	tmp := filepath.Join(dir, fmt.Sprintf("tmp%d", n))
	_ = os.MkdirAll(tmp, 0o755)
	defer os.RemoveAll(tmp)
	jobPath := filepath.Join(dir, fmt.Sprintf("cjob%d.json", n))
	outPath := filepath.Join(dir, fmt.Sprintf("cjob%d.out", n))
	defer os.Remove(jobPath)
	defer os.Remove(outPath)
	b, _ := json.Marshal(map[string]any{"scenarios": scs, "out": outPath})
	if err := os.WriteFile(jobPath, b, 0o644); err != nil {
		return nil, build.Toolf("job: %v", err)
	}
	env := []string{"VERIF_SIM_JOB=" + jobPath, "GORACE=halt_on_error=0 exitcode=0 history_size=3", "TMPDIR=" + tmp}
	r := e.S.Run(dir, 30*time.Minute, env, bin, "-test.run", "^TestSim$", "-test.timeout", "0", "-test.count", "1")
	stderr := string(r.Stderr) + string(r.Stdout)
	results := make([]CResult, len(scs))
	for i := range results {
		results[i] = CResult{ID: scs[i].ID, Missing: true}
	}
	if f, err := os.Open(outPath); err == nil {
		sc := bufio.NewScanner(f)
		sc.Buffer(make([]byte, 1<<26), 1<<26)
		i := 0
		for sc.Scan() && i < len(results) {
			var res CResult
			if err := json.Unmarshal(sc.Bytes(), &res); err == nil {
				results[i] = res
			}
			i++
		}
		f.Close()
	}
	for _, p := range strings.Split(stderr, "\nSCENARIO-BEGIN ")[1:] {
		var idx int
		fmt.Sscanf(p, "%d", &idx)
		if idx >= 0 && idx < len(results) {
			results[idx].Races = append(results[idx].Races, raceRe.FindAllString(p, -1)...)
		}
	}
	if strings.Contains(stderr, "WATCHDOG scenario") {
		return results, build.Toolf("corpus simulation stalled (watchdog):\n%s", tail(stderr, 8000))
	}
	for i := range results {
		if results[i].Missing {
			results[i].Stderr = tail(stderr, 3000)
			if i+1 < len(scs) {
				rest, err := e.runCJob(bin, scs[i+1:])
				copy(results[i+1:], rest)
				return results, err
			}
		}
	}
	return results, nil
}

func (e *Engine) runCAll(bin string, scs []CScenario, perProc, jobs int) ([]CResult, error) {
	results := make([]CResult, len(scs))
	var wg sync.WaitGroup
	sem := make(chan struct{}, jobs)
	var firstErr error
	var emu sync.Mutex
	for lo := 0; lo < len(scs); lo += perProc {
		hi := min(lo+perProc, len(scs))
		wg.Add(1)
		sem <- struct{}{}
		go func(lo, hi int) {
			defer wg.Done()
			defer func() { <-sem }()
			rs, err := e.runCJob(bin, scs[lo:hi])
			if err != nil {
				emu.Lock()
				if firstErr == nil {
					firstErr = err
				}
				emu.Unlock()
			}
			copy(results[lo:hi], rs)
		}(lo, hi)
	}
	wg.Wait()
	return results, firstErr
}

// ---- request synthesis

var pathValues = []string{"1", "abc", "3fa85f64-5717-4562-b3fc-2c963f66afa6", "2021-01-02", "true", "a%20b", "-5", "x.y", "0"}
var bodies = []struct{ ct, body string }{
	{"", ""},
	{"application/json", "{}"},
	{"application/json", `{"id":1,"name":"x","tag":"t"}`},
	{"application/json", "[]"},
	{"application/json", `[{"id":1}]`},
	{"application/json", `"str"`},
	{"application/json", "null"},
	{"application/json", `{"a":{"b":[1,2,{"c":null}]}}`},
	{"application/x-www-form-urlencoded", "a=1&b=x&name=n"},
	{"multipart/form-data; boundary=XX", "--XX\r\nContent-Disposition: form-data; name=\"a\"\r\n\r\n1\r\n--XX--\r\n"},
	{"text/plain", "hello"},
	{"application/octet-stream", "\x00\x01\x02bin"},
}

func synth(rng *rand.Rand, rt Route, mode Mode) RawCall {
	p := rt.Path
	for strings.Contains(p, "{") {
		i, j := strings.Index(p, "{"), strings.Index(p, "}")
		if j < i {
			break
		}
		p = p[:i] + pathValues[rng.Intn(len(pathValues))] + p[j+1:]
	}
	c := RawCall{Method: rt.Method, Path: p}
	if rng.Intn(2) == 0 {
		c.Query = []string{"a=1", "limit=10&offset=0", "q=x&tags=a&tags=b", "id=1&name=n", "page=2", "x=%zz"}[rng.Intn(6)]
	}
	if rng.Intn(3) == 0 {
		c.Header = map[string]string{[]string{"X-Request-Id", "Authorization", "X-Api-Key", "Cookie", "Accept"}[rng.Intn(5)]: []string{"1", "Bearer t", "k", "a=b; c=d", "*/*"}[rng.Intn(5)]}
	}
	if rt.Method != "GET" && rt.Method != "DELETE" && rt.Method != "HEAD" {
		b := bodies[rng.Intn(len(bodies))]
		c.CT, c.Body = b.ct, b.body
	} else if rng.Intn(10) == 0 {
		b := bodies[1+rng.Intn(3)]
		c.CT, c.Body = b.ct, b.body
	}
	frac := func() int { return 1 + rng.Intn(999) }
	switch mode {
	case ModeC15:
		switch rng.Intn(12) {
		case 10, 11:
			c.Fault = sampleMangle(rng, []string{fmt.Sprintf("query#%d", rng.Intn(8)), fmt.Sprintf("header#%d", rng.Intn(4)), fmt.Sprintf("path:%d", rng.Intn(6))})
		case 0, 1:
			c.Fault = &Fault{Kind: "cut-req", Frac: frac()}
		case 2:
			c.Fault = &Fault{Kind: "reset-req", Frac: frac()}
		case 3:
			c.Fault = &Fault{Kind: "cancel", At: 1 + rng.Intn(40)}
		case 4:
			c.Fault = &Fault{Kind: "writer-fail", At: rng.Intn(200)}
		case 5:
			c.Fault = &Fault{Kind: "method", Arg: []string{"GET", "PUT", "DELETE", "PATCH", "POST", "HEAD", "OPTIONS"}[rng.Intn(7)]}
		case 6:
			c.Fault = &Fault{Kind: "ctype", Arg: []string{"", "text/weird", "application", ";;;", "application/json; charset="}[rng.Intn(5)]}
		case 7, 8:
			c.Fault = &Fault{Kind: "flip", At: rng.Intn(400)}
			if rng.Intn(3) == 0 {
				c.Fault = &Fault{Kind: "lie-length", Arg: []string{"4611686018427387904", "9223372036854775807", "1152921504606846976"}[rng.Intn(3)]}
			}
		case 9:
			c.Fault = &Fault{Kind: []string{"dup", "replay"}[rng.Intn(2)]}
		}
	case ModeC19:
		if rng.Intn(8) == 0 {
			c.Fault = &Fault{Kind: []string{"cut-req", "cancel", "cut-resp", "writer-fail"}[rng.Intn(4)], Frac: frac(), At: 1 + rng.Intn(30)}
			if c.Fault.Kind == "cancel" || c.Fault.Kind == "writer-fail" {
				c.Fault.Frac = 0
			}
		}
	}
	return c
}

func sampleCScenario(rng *rand.Rand, pkg CorpusPkg, mode Mode, i int) CScenario {
	sc := CScenario{
		World: "corpus", ID: fmt.Sprintf("corpus:%s#%d", pkg.Name, i), Pkg: pkg.Name, Seed: rng.Uint64() >> 1,
		YieldP: []float64{0.3, 1}[rng.Intn(2)], MaxDelay: []int{1, 3, 10}[rng.Intn(3)], Procs: []int{1, 2, 4, 8, 16}[rng.Intn(5)],
		PoolPolicy: rng.Intn(3), Poison: rng.Intn(4) != 0, MapPolicy: []int{2, 3, 4}[rng.Intn(3)],
	}
	switch rng.Intn(4) {
	case 0:
		sc.MinChunk, sc.MaxChunk = 1, 5
	case 1:
		sc.MinChunk, sc.MaxChunk = 1, 64
	case 2:
		sc.MinChunk, sc.MaxChunk = 16, 1500
	default:
		sc.MinChunk, sc.MaxChunk = 1<<16, 1<<16
	}
	nTasks, nOps := 1+rng.Intn(2), 1+rng.Intn(4)
	if mode == ModeC19 {
		nTasks, nOps = 2+rng.Intn(6), 2+rng.Intn(4)
	}
	for t := 0; t < nTasks; t++ {
		var calls []RawCall
		for o := 0; o < nOps; o++ {
			calls = append(calls, synth(rng, pkg.Routes[rng.Intn(len(pkg.Routes))], mode))
		}
		sc.Tasks = append(sc.Tasks, calls)
	}
	return sc
}

// ---- oracles (generic: no typed expectations)

func corpusC15(r *CRecord, stubErrors bool) []problem {
	var out []problem
	k := ""
	if r.Call.Fault != nil && r.FaultFired {
		k = r.Call.Fault.Kind
	}
	add := func(oracle, what string) {
		out = append(out, problem{oracle, fmt.Sprintf("call t%d.o%d %s %s (fault %+v fired=%v, content type %q): %s", r.Task, r.Op, r.Call.Method, r.Call.Path, r.Call.Fault, r.FaultFired, r.Call.CT, what), "corpus/" + k + "/" + oracle})
	}
	for i, s := range r.Sides {
		if !s.Delivered {
			continue
		}
		if s.Panic != "" {
			add("server does not panic", fmt.Sprintf("delivery %d: panic: %s", i, clip(s.Panic, 300)))
			continue
		}
		if !s.Returned {
			add("ServeHTTP returns", fmt.Sprintf("delivery %d did not return", i))
			continue
		}
		if s.WriteErrs > 0 {
			continue
		}
		if s.Commits != 1 || s.WriteHeaders > 1 || s.WritesAfter > 0 {
			add("exactly one response", fmt.Sprintf("delivery %d: %d header commits, %d WriteHeader calls, %d writes after return", i, s.Commits, s.WriteHeaders, s.WritesAfter))
		}
		if !s.Explicit {
			add("exactly one response", fmt.Sprintf("delivery %d: the server wrote nothing", i))
		}
		if s.MiddlewareOps > 1 {
			add("handler invoked at most once", fmt.Sprintf("delivery %d: middleware ran %d times", i, s.MiddlewareOps))
		}
		if s.DecodeErrBodyForeign || s.DecodeErrBodyChanged {
			add("the error handler is shown the rejected body of this request, and it stays what it is", fmt.Sprintf("delivery %d: not this request's: %v, changed while held: %v", i, s.DecodeErrBodyForeign, s.DecodeErrBodyChanged))
		}
		optionsPreflight := k == "method" && r.Call.Fault.Arg == "OPTIONS" && s.Status == 204 // ogen answers OPTIONS on a known path itself (Allow / CORS headers)
		if s.MiddlewareOps == 0 && s.Explicit && !ogenStatuses[s.Status] && !optionsPreflight && !stubErrors {
			add("a request that does not reach the handler is answered 404/405/401/400/415", fmt.Sprintf("delivery %d: status %d without reaching the handler", i, s.Status))
		}
		if s.MiddlewareOps == 1 && ogenStatuses[s.Status] && s.Status != 401 {
			// the stub handler fails with "not implemented": a 4xx of the pre-handler stages after the
			// handler stage was entered means a stage ran twice or out of order
			add("stage order", fmt.Sprintf("delivery %d: the handler stage was reached, yet the answer is %d", i, s.Status))
		}
	}
	return out
}

func corpusC19(alone, conc *CRecord) []problem {
	var out []problem
	add := func(oracle, what string) {
		out = append(out, problem{oracle, fmt.Sprintf("call t%d.o%d %s %s: %s", conc.Task, conc.Op, conc.Call.Method, conc.Call.Path, what), "corpus/" + oracle})
	}
	if !conc.Returned {
		add("every call returns once faults stop (bounded liveness)", "the call never returned")
		return out
	}
	if conc.Call.Fault != nil || alone == nil {
		return nil
	}
	if conc.Status != alone.Status || conc.BodySum != alone.BodySum || (conc.ClientErr == "") != (alone.ClientErr == "") {
		add("outcome equals the outcome when run alone", fmt.Sprintf("status %d body %s/%d err %q, alone: status %d body %s/%d err %q", conc.Status, conc.BodySum, conc.BodyLen, conc.ClientErr, alone.Status, alone.BodySum, alone.BodyLen, alone.ClientErr))
	}
	var a, c *ServerSide
	if len(alone.Sides) > 0 {
		a = alone.Sides[0]
	}
	if len(conc.Sides) > 0 {
		c = conc.Sides[0]
	}
	if (a == nil) != (c == nil) {
		add("outcome equals the outcome when run alone", "delivered in one run only")
	} else if a != nil && (c.DecodeErrBodyForeign || c.DecodeErrBodyChanged || a.DecodeErrBody != c.DecodeErrBody) {
		add("outcome equals the outcome when run alone: the rejected body the error handler is shown", fmt.Sprintf("digest %q (not this request's: %v, changed while held: %v), alone %q", c.DecodeErrBody, c.DecodeErrBodyForeign, c.DecodeErrBodyChanged, a.DecodeErrBody))
	} else if a != nil && (a.Status != c.Status || a.MiddlewareOps != c.MiddlewareOps || a.MiddlewareSaw != c.MiddlewareSaw) {
		add("outcome equals the outcome when run alone: server side", fmt.Sprintf("status %d, handler stage %d (%s); alone: status %d, handler stage %d (%s)", c.Status, c.MiddlewareOps, c.MiddlewareSaw, a.Status, a.MiddlewareOps, a.MiddlewareSaw))
	}
	return out
}

// checkCorpus runs the corpus part of C15 or C19 and returns its violations and coverage.
func (e *Engine) checkCorpus(c *core.Ctx, id string) ([]core.Violation, map[string]any, error) {
	if len(e.Corpus) == 0 {
		return nil, map[string]any{"packages": 0, "skipped": e.CorpusSkipped}, nil
	}
	mode := ModeC15
	if id == "C19" {
		mode = ModeC19
	}
	rng := rand.New(rand.NewSource(c.Seed ^ 0xc0ffee))
	per := 60
	if c.Tier == "thorough" {
		per = 1500
	}
	per = scaled(per)
	var scs, raceScs []CScenario
	for _, p := range e.Corpus {
		for i := 0; i < per; i++ {
			sc := sampleCScenario(rng, p, mode, i)
			scs = append(scs, sc)
			if id == "C19" && i%5 == 0 {
				r := sc
				r.SkipAlone = true
				raceScs = append(raceScs, r)
			}
		}
	}
	var res, raceRes []CResult
	var err1, err2 error
	var wg sync.WaitGroup
	wg.Add(1)
	go func() { defer wg.Done(); res, err1 = e.runCAll(e.CPlain, scs, 40, c.Jobs) }()
	if len(raceScs) > 0 && e.CRace != "" {
		wg.Add(1)
		go func() { defer wg.Done(); raceRes, err2 = e.runCAll(e.CRace, raceScs, 20, c.Jobs) }()
	}
	wg.Wait()
	if err1 != nil {
		return nil, nil, err1
	}
	if err2 != nil {
		return nil, nil, err2
	}
	stub := map[string]bool{}
	for _, p := range e.Corpus {
		stub[p.Name] = p.StubErrors
	}
	var vs []core.Violation
	seen := map[string]bool{}
	calls, reached, notReached := 0, 0, 0
	statusHist := map[int]int{}
	distinct := map[string]bool{}
	syncPoints, syncYields := 0, 0
	for i := range res {
		r := &res[i]
		if r.ToolTrouble != "" {
			return nil, nil, build.Toolf("corpus scenario %s: %s", r.ID, r.ToolTrouble)
		}
		if r.Missing || r.Aborted {
			vs = append(vs, core.Violation{Key: "corpus/died/" + scs[i].Pkg, Oracle: "the simulation process survives", What: r.ID + ": " + clip(r.Stderr, 1200), Seed: c.Seed, Scenario: map[string]any{"binary": "corpus-plain", "scenario": scs[i]}})
			continue
		}
		if r.Switches > 0 {
			distinct[r.SchedHash] = true
		}
		syncPoints += r.SyncPoints
		syncYields += r.SyncYields
		var ps []problem
		aloneBy := map[[2]int]*CRecord{}
		for _, a := range r.Alone {
			aloneBy[[2]int{a.Task, a.Op}] = a
			if id == "C15" {
				ps = append(ps, corpusC15(a, stub[scs[i].Pkg])...)
				ps = append(ps, routingRule(a, e.matchers(scs[i].Pkg), scs[i].Pkg, scs[i].Prefix, scs[i].CustomNF)...)
			}
		}
		for _, cr := range r.Conc {
			calls++
			for _, s := range cr.Sides {
				if s.Delivered {
					statusHist[s.Status]++
					if s.MiddlewareOps > 0 {
						reached++
					} else {
						notReached++
					}
				}
			}
			if id == "C15" {
				ps = append(ps, corpusC15(cr, stub[scs[i].Pkg])...)
				ps = append(ps, routingRule(cr, e.matchers(scs[i].Pkg), scs[i].Pkg, scs[i].Prefix, scs[i].CustomNF)...)
			} else {
				ps = append(ps, corpusC19(aloneBy[[2]int{cr.Task, cr.Op}], cr)...)
			}
		}
		if id == "C19" && r.Deadlock != "" {
			ps = append(ps, problem{"no task blocks forever (bubble deadlock)", clip(r.Deadlock, 1200), "corpus/deadlock"})
		}
		for _, p := range ps {
			key := p.Key + "/" + scs[i].Pkg
			if seen[key] {
				continue
			}
			seen[key] = true
			vs = append(vs, core.Violation{Key: key, Oracle: p.Oracle, What: r.ID + ": " + clip(p.What, 900), Seed: c.Seed, Scenario: map[string]any{"binary": "corpus-plain", "scenario": scs[i]}})
		}
	}
	raceReports := 0
	for i := range raceRes {
		for _, rep := range raceRes[i].Races {
			raceReports++
			key := "corpus/race " + raceKey(rep)
			if seen[key] {
				continue
			}
			seen[key] = true
			vs = append(vs, core.Violation{Key: key, Oracle: "no data race between concurrent calls (race detector on the seeded schedule)", What: raceRes[i].ID + ": " + clip(rep, 1500), Seed: c.Seed, Scenario: map[string]any{"binary": "corpus-race", "scenario": raceScs[i]}})
		}
	}
	var names []string
	for _, p := range e.Corpus {
		names = append(names, p.Name)
	}
	info := map[string]any{
		"packages": len(e.Corpus), "package_names": names, "skipped": e.CorpusSkipped, "runs": len(scs), "race_runs": len(raceScs), "race_reports": raceReports,
		"calls": calls, "deliveries_reaching_handler_stage": reached, "deliveries_rejected_before": notReached, "status_histogram": statusHist,
		"distinct_schedules": len(distinct), "sync_operation_points": syncPoints, "sync_operation_preemptions": syncYields,
	}
	return vs, info, nil
}

// replayCorpus re-runs one corpus scenario.
func (e *Engine) replayCorpus(c *core.Ctx, id string, raw json.RawMessage, race bool) (*core.Outcome, error) {
	var rs struct {
		Scenario CScenario `json:"scenario"`
	}
	if err := json.Unmarshal(raw, &rs); err != nil {
		return nil, build.Toolf("replay: %v", err)
	}
	bin := e.CPlain
	if race {
		bin = e.CRace
	}
	res, err := e.runCJob(bin, []CScenario{rs.Scenario})
	if err != nil {
		return nil, err
	}
	out := &core.Outcome{}
	r := &res[0]
	fmt.Printf("replay: schedule hash %s\n", r.SchedHash)
	aloneBy := map[[2]int]*CRecord{}
	var ps []problem
	if rs.Scenario.Typed {
		deliver := e.deliverSets()
		pkg := rs.Scenario.Pkg
		for _, a := range r.Alone {
			aloneBy[[2]int{a.Task, a.Op}] = a
		}
		for pi, recs := range [][]*CRecord{r.Alone, r.Conc} {
			for _, cr := range recs {
				switch id {
				case "C01":
					ps = append(ps, typedExact(cr, pkg)...)
					ps = append(ps, typedDeliver(cr, pkg, deliver[pkg])...)
				case "C15":
					ps = append(ps, typedC15(cr, pkg)...)
					ps = append(ps, routingRule(cr, e.matchers(pkg), pkg, rs.Scenario.Prefix, rs.Scenario.CustomNF)...)
				case "C19":
					if pi == 1 {
						ps = append(ps, typedC19(aloneBy[[2]int{cr.Task, cr.Op}], cr, pkg)...)
					}
				}
			}
		}
		if id == "C19" && r.Deadlock != "" {
			ps = append(ps, problem{"no task blocks forever (bubble deadlock)", clip(r.Deadlock, 1200), "typed/deadlock/" + pkg})
		}
		for _, p := range ps {
			out.Violations = append(out.Violations, core.Violation{Key: p.Key, Oracle: p.Oracle, What: p.What, Seed: c.Seed, Scenario: map[string]any{"binary": "corpus-plain", "scenario": rs.Scenario}})
		}
		for _, rep := range r.Races {
			out.Violations = append(out.Violations, core.Violation{Key: "typed/race " + raceKey(rep), Oracle: "no data race", What: clip(rep, 1500), Seed: c.Seed, Scenario: map[string]any{"binary": "corpus-race", "scenario": rs.Scenario}})
		}
		return out, nil
	}
	for _, a := range r.Alone {
		aloneBy[[2]int{a.Task, a.Op}] = a
		if id == "C15" {
			ps = append(ps, corpusC15(a, stubOf(e, rs.Scenario.Pkg))...)
			ps = append(ps, routingRule(a, e.matchers(rs.Scenario.Pkg), rs.Scenario.Pkg, rs.Scenario.Prefix, rs.Scenario.CustomNF)...)
		}
	}
	for _, cr := range r.Conc {
		if id == "C15" {
			ps = append(ps, corpusC15(cr, stubOf(e, rs.Scenario.Pkg))...)
			ps = append(ps, routingRule(cr, e.matchers(rs.Scenario.Pkg), rs.Scenario.Pkg, rs.Scenario.Prefix, rs.Scenario.CustomNF)...)
		} else {
			ps = append(ps, corpusC19(aloneBy[[2]int{cr.Task, cr.Op}], cr)...)
		}
	}
	for _, p := range ps {
		out.Violations = append(out.Violations, core.Violation{Key: p.Key + "/" + rs.Scenario.Pkg, Oracle: p.Oracle, What: p.What, Seed: c.Seed, Scenario: map[string]any{"binary": "corpus-plain", "scenario": rs.Scenario}})
	}
	for _, rep := range r.Races {
		out.Violations = append(out.Violations, core.Violation{Key: "corpus/race " + raceKey(rep), Oracle: "no data race", What: clip(rep, 1500), Seed: c.Seed, Scenario: map[string]any{"binary": "corpus-race", "scenario": rs.Scenario}})
	}
	return out, nil
}

func stubOf(e *Engine, pkg string) bool {
	for _, p := range e.Corpus {
		if p.Name == pkg {
			return p.StubErrors
		}
	}
	return false
}

// ---- which operation a request line designates (independent of ogen's router)

type routeMatcher struct {
	route Route
	segs  []*regexp.Regexp
}

var tmplParam = regexp.MustCompile(`\{[^{}]*\}`)

func newRouteMatchers(routes []Route) []routeMatcher {
	var out []routeMatcher
	for _, rt := range routes {
		if !strings.HasPrefix(rt.Path, "/") {
			continue
		}
		m := routeMatcher{route: rt}
		for _, seg := range strings.Split(rt.Path[1:], "/") {
			var sb strings.Builder
			sb.WriteString("^")
			last := 0
			for _, loc := range tmplParam.FindAllStringIndex(seg, -1) {
				sb.WriteString(regexp.QuoteMeta(seg[last:loc[0]]))
				sb.WriteString("(?s:.+)")
				last = loc[1]
			}
			sb.WriteString(regexp.QuoteMeta(seg[last:]))
			sb.WriteString("$")
			m.segs = append(m.segs, regexp.MustCompile(sb.String()))
		}
		out = append(out, m)
	}
	return out
}

// designated lists the routes whose template the escaped path instantiates: segments are what lies between
// literal slashes, compared after percent-decoding; every parameter stands for a non-empty text.
func designated(ms []routeMatcher, rawPath string) []Route {
	if !strings.HasPrefix(rawPath, "/") {
		return nil
	}
	raw := strings.Split(rawPath[1:], "/")
	segs := make([]string, len(raw))
	for i, s := range raw {
		d, err := url.PathUnescape(s)
		if err != nil {
			return nil
		}
		segs[i] = d
	}
	var out []Route
	for _, m := range ms {
		if len(m.segs) != len(segs) {
			continue
		}
		ok := true
		for i, re := range m.segs {
			if !re.MatchString(segs[i]) {
				ok = false
				break
			}
		}
		if ok {
			out = append(out, m.route)
		}
	}
	return out
}

// allWholeSegments: every parameter of every given route is a whole segment.
func allWholeSegments(rts []Route) bool {
	for _, rt := range rts {
		for _, seg := range strings.Split(rt.Path, "/") {
			if strings.Contains(seg, "{") && !(strings.HasPrefix(seg, "{") && strings.HasSuffix(seg, "}") && strings.Count(seg, "{") == 1) {
				return false
			}
		}
	}
	return true
}

// wholeSegments: all designated routes for the method have templates in which every parameter is a whole segment.
func wholeSegments(rts []Route, method string) bool {
	n := 0
	// one template only: where a static and a templated path both match, the static one is the path item that
	// applies, and a method it does not define is rightly answered 405
	for _, rt := range rts {
		if rt.Path != rts[0].Path {
			return false
		}
	}
	for _, rt := range rts {
		if rt.Method != method {
			continue
		}
		n++
		for _, seg := range strings.Split(rt.Path, "/") {
			if strings.Contains(seg, "{") && !(strings.HasPrefix(seg, "{") && strings.HasSuffix(seg, "}") && strings.Count(seg, "{") == 1) {
				return false
			}
		}
	}
	return n > 0
}

// routingRule: a request reaches only an operation its request line designates; a path that designates none is
// answered 404, one whose operations do not take the method 405 - without reaching any handler.
func routingRule(r *CRecord, ms []routeMatcher, pkg, prefix string, custom bool) []problem {
	if r.ReqPath == "" || strings.HasPrefix(r.Call.TOp, "~") || len(ms) == 0 {
		return nil
	}
	k := ""
	if r.Call.Fault != nil {
		k = r.Call.Fault.Kind
	}
	if k == "flip" {
		return nil // the request line itself may have been altered on the wire
	}
	var out []problem
	// the server is mounted under prefix: a path outside it designates nothing
	var rts []Route
	if rest, ok := strings.CutPrefix(r.ReqPath, prefix); ok {
		rts = designated(ms, rest)
	}
	var forMethod []string
	for _, rt := range rts {
		if rt.Method == r.ReqMethod {
			forMethod = append(forMethod, rt.Op)
		}
	}
	add := func(oracle, what string) {
		out = append(out, problem{oracle, fmt.Sprintf("call t%d.o%d %s %s (fault %+v): %s", r.Task, r.Op, r.ReqMethod, clip(r.ReqPath, 120), r.Call.Fault, what), keyOf("routing/" + oracle + "/" + pkg)})
	}
	for i, s := range r.Sides {
		if !s.Delivered || s.Panic != "" || !s.Returned {
			continue
		}
		if s.WriteErrs > 0 && k != "" && k != "mangle" && k != "dup-query" && k != "method" && k != "ctype" && k != "append" && k != "dup" && k != "replay" {
			continue // the client went away under the server; after a mere rewriting of the head it is alive and the rules hold
		}
		switch {
		case len(rts) == 0:
			if s.MiddlewareOps != 0 || s.HandlerCalls != 0 || s.Status != 404 {
				add("a path that designates no operation is answered 404 and reaches no handler", fmt.Sprintf("delivery %d: status %d, middleware saw %q", i, s.Status, s.MiddlewareSaw))
			} else if custom && s.CustomNotFound != 1 {
				add("the configured NotFound handler answers a path that designates no operation", fmt.Sprintf("delivery %d: status %d, the handler ran %d times", i, s.Status, s.CustomNotFound))
			}
		case len(forMethod) == 0:
			preflight := r.ReqMethod == "OPTIONS" && s.Status == 204
			// a template with a parameter that is only part of a segment may be read as not matching (which text
			// belongs to which parameter is ogen's choice): 404 is as good as 405 there
			lenient := s.Status == 404 && !allWholeSegments(rts)
			if s.MiddlewareOps != 0 || s.HandlerCalls != 0 || (s.Status != 405 && !preflight && !lenient) {
				add("a path whose operations do not take the method is answered 405 and reaches no handler", fmt.Sprintf("delivery %d: status %d, middleware saw %q", i, s.Status, s.MiddlewareSaw))
			} else if custom && s.CustomNotFound+s.CustomNotAllow != 1 {
				add("the configured MethodNotAllowed handler answers a path whose operations do not take the method", fmt.Sprintf("delivery %d: status %d, NotFound ran %d times, MethodNotAllowed %d times", i, s.Status, s.CustomNotFound, s.CustomNotAllow))
			}
		case s.MiddlewareOps > 0:
			ok := false
			for _, op := range forMethod {
				if s.MiddlewareSaw == op {
					ok = true
				}
			}
			if !ok {
				add("a request reaches only an operation its request line designates", fmt.Sprintf("delivery %d: designates %v, middleware saw %q", i, forMethod, s.MiddlewareSaw))
			}
		case (s.Status == 404 || s.Status == 405) && s.Explicit && wholeSegments(rts, r.ReqMethod):
			// every template the path instantiates has only whole-segment parameters: there is no way to read
			// the path as not matching
			add("a request whose path designates an operation is not answered 404/405", fmt.Sprintf("delivery %d: designates %v, status %d", i, forMethod, s.Status))
		}
	}
	return out
}
