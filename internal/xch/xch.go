package xch

import (
	"bufio"
	"encoding/json"
	"fmt"
	"math/rand"
	"net/url"
	"os"
	"path/filepath"
	"regexp"
	"sort"
	"strconv"
	"strings"
	"sync"
	"time"

	"verif/internal/build"
	"verif/internal/core"
	"verif/internal/evid"
)

// ---- mirror of the harness types (simsrc/xsim)

type Fault struct {
	Kind string `json:"kind"`
	At   int    `json:"at"`
	Frac int    `json:"frac,omitempty"`
	Arg  string `json:"arg,omitempty"`
	Val  string `json:"val,omitempty"`
}

type Call struct {
	Op      string `json:"op"`
	V       uint64 `json:"v"`
	Invalid string `json:"invalid,omitempty"`
	Fault   *Fault `json:"fault,omitempty"`
	Reader  string `json:"reader,omitempty"`
	Cred    string `json:"cred,omitempty"`
	Huge    bool   `json:"huge,omitempty"`
}

type Scenario struct {
	World              string   `json:"world"` // feature configuration of the regenerated world (see Worlds)
	ID                 string   `json:"id"`
	Seed               uint64   `json:"seed"`
	Tasks              [][]Call `json:"tasks"`
	YieldP             float64  `json:"yield_p"`
	MaxDelay           int      `json:"max_delay"`
	MinChunk           int      `json:"min_chunk"`
	MaxChunk           int      `json:"max_chunk"`
	MaxMultipartMemory int64    `json:"max_multipart_memory"`
	PoolPolicy         int      `json:"pool_policy"`
	Poison             bool     `json:"poison"`
	Procs              int      `json:"gomaxprocs"`
	MapPolicy          int      `json:"map_policy"`
	SkipAlone          bool     `json:"skip_alone,omitempty"`
}

type ServerSide struct {
	Delivered            bool   `json:"delivered"`
	ParseErr             string `json:"parse_err,omitempty"`
	Panic                string `json:"panic,omitempty"`
	Status               int    `json:"status"`
	WriteHeaders         int    `json:"write_headers"`
	Commits              int    `json:"commits"`
	Explicit             bool   `json:"explicit"`
	BodyBytes            int    `json:"body_bytes"`
	WritesAfter          int    `json:"writes_after_return"`
	WriteErrs            int    `json:"write_errs"`
	HandlerCalls         int    `json:"handler_calls"`
	MiddlewareOps        int    `json:"middleware_calls"`
	ServerSaw            string `json:"server_saw,omitempty"`
	MiddlewareSaw        string `json:"middleware_saw,omitempty"`
	ErrBody              string `json:"err_body,omitempty"`
	DecodeErrBody        string `json:"decode_err_body,omitempty"`
	DecodeErrBodyForeign bool   `json:"decode_err_body_foreign,omitempty"`
	DecodeErrBodyChanged bool   `json:"decode_err_body_changed,omitempty"`
	Middleware2Saw       string `json:"middleware2_saw,omitempty"`
	SecurityCalls        int    `json:"security_calls"`
	SecurityRefused      bool   `json:"security_refused,omitempty"`
	LabelsForeign        string `json:"labels_foreign,omitempty"`
	NewErrorStatus       int    `json:"new_error_status,omitempty"`
	CustomNotFound       int    `json:"custom_not_found,omitempty"`
	CustomNotAllow       int    `json:"custom_method_not_allowed,omitempty"`
	Allow                string `json:"allow,omitempty"`
	Returned             bool   `json:"returned"`
	TempFiles            int    `json:"temp_files"`
}

type CallRecord struct {
	Task            int           `json:"task"`
	Op              int           `json:"op"`
	Call            Call          `json:"call"`
	Tag             string        `json:"tag"`
	FaultFired      bool          `json:"fault_fired"`
	ReqBytes        int           `json:"req_bytes"`
	RespBytes       int           `json:"resp_bytes"`
	Sides           []*ServerSide `json:"sides"`
	Returned        bool          `json:"returned"`
	ClientErr       string        `json:"client_err,omitempty"`
	ClientErrClass  string        `json:"client_err_class,omitempty"`
	ClientGot       string        `json:"client_got,omitempty"`
	ExpectServerSaw string        `json:"expect_server_saw,omitempty"`
	ExpectClientGot string        `json:"expect_client_got,omitempty"`
	ExpectStatus    int           `json:"expect_status"`
	ExpectErrClass  string        `json:"expect_err_class,omitempty"`
	MayRefuse       bool          `json:"may_refuse,omitempty"`
	HasBody         bool          `json:"has_body,omitempty"`
}

type Result struct {
	Aborted     bool          `json:"aborted,omitempty"`
	ID          string        `json:"id"`
	Alone       []*CallRecord `json:"alone,omitempty"`
	Conc        []*CallRecord `json:"conc"`
	Deadlock    string        `json:"deadlock,omitempty"`
	Panic       string        `json:"panic,omitempty"`
	ToolTrouble string        `json:"tool_trouble,omitempty"`
	Yields      int           `json:"yields"`
	SyncPoints  int           `json:"sync_points"`
	SyncYields  int           `json:"sync_yields"`
	Streams     int           `json:"streams"`
	SchedHash   string        `json:"sched_hash"`
	Switches    int           `json:"switches"`
	FakeNS      int64         `json:"fake_ns"`
	WallMS      int64         `json:"wall_ms"`
	PoolReused  int           `json:"pool_reused"`
	PoolPoison  int           `json:"pool_poisoned"`
	TempFiles   int           `json:"temp_files"`

	Races   []string `json:"-"`
	Missing bool     `json:"-"`
	Stderr  string   `json:"-"`
}

var raceRe = regexp.MustCompile(`(?s)WARNING: DATA RACE.*?={18}`)

// RunJob executes scenarios in one process.
func (e *Engine) RunJob(bin string, scs []Scenario, timeout time.Duration) ([]Result, error) {
	e.mu.Lock()
	e.jobSeq++
	n := e.jobSeq
	e.mu.Unlock()
	dir := filepath.Join(e.S.Dir, "jobs")
	_ = os.MkdirAll(dir, 0o755)
	tmp := filepath.Join(dir, fmt.Sprintf("tmp%d", n))
	_ = os.MkdirAll(tmp, 0o755)
	defer os.RemoveAll(tmp)
	jobPath := filepath.Join(dir, fmt.Sprintf("job%d.json", n))
	outPath := filepath.Join(dir, fmt.Sprintf("job%d.out", n))
	defer os.Remove(jobPath)
	defer os.Remove(outPath)
	b, _ := json.Marshal(map[string]any{"scenarios": scs, "out": outPath})
	if err := os.WriteFile(jobPath, b, 0o644); err != nil {
		return nil, build.Toolf("job: %v", err)
	}
	env := []string{"VERIF_SIM_JOB=" + jobPath, "GORACE=halt_on_error=0 exitcode=0 history_size=3", "TMPDIR=" + tmp}
	r := e.S.Run(dir, timeout, env, bin, "-test.run", "^TestSim$", "-test.timeout", "0", "-test.count", "1")
	stderr := string(r.Stderr) + string(r.Stdout)
	results := make([]Result, len(scs))
	for i := range results {
		results[i] = Result{ID: scs[i].ID, Missing: true}
	}
	if f, err := os.Open(outPath); err == nil {
		sc := bufio.NewScanner(f)
		sc.Buffer(make([]byte, 1<<26), 1<<26)
		i := 0
		for sc.Scan() && i < len(results) {
			var res Result
			if err := json.Unmarshal(sc.Bytes(), &res); err == nil {
				results[i] = res
			}
			i++
		}
		f.Close()
	}
	parts := strings.Split(stderr, "\nSCENARIO-BEGIN ")
	for _, p := range parts[1:] {
		var idx int
		fmt.Sscanf(p, "%d", &idx)
		if idx < 0 || idx >= len(results) {
			continue
		}
		results[idx].Races = append(results[idx].Races, raceRe.FindAllString(p, -1)...)
	}
	if strings.Contains(stderr, "WATCHDOG scenario") {
		return results, build.Toolf("simulation stalled (watchdog):\n%s", tail(stderr, 8000))
	}
	if r.Err != nil && !strings.Contains(fmt.Sprint(r.Err), "exit status") {
		return results, build.Toolf("simulation process: %v\n%s", r.Err, tail(stderr, 4000))
	}
	// A process that died (fatal error, unrecovered panic in a goroutine of the code under test) takes the
	// rest of its batch with it: only the first scenario without a result was running; the ones behind it are
	// run again in a fresh process.
	for i := range results {
		if results[i].Missing {
			results[i].Stderr = tail(stderr, 4000)
			if i+1 < len(scs) {
				rest, err := e.RunJob(bin, scs[i+1:], timeout)
				copy(results[i+1:], rest)
				return results, err
			}
			break
		}
	}
	for i := range results {
		if results[i].Missing {
			results[i].Stderr = tail(stderr, 4000)
		}
	}
	return results, nil
}

// RunAll distributes scenarios over processes of the binary of their world.
func (e *Engine) RunAll(race bool, scs []Scenario, perProc, jobs int) ([]Result, error) {
	results := make([]Result, len(scs))
	var wg sync.WaitGroup
	sem := make(chan struct{}, jobs)
	var firstErr error
	var emu sync.Mutex
	byWorld := map[string][]int{}
	for i, sc := range scs {
		byWorld[sc.World] = append(byWorld[sc.World], i)
	}
	for w, idxs := range byWorld {
		bin := e.Bin(w, race)
		for lo := 0; lo < len(idxs); lo += perProc {
			hi := min(lo+perProc, len(idxs))
			wg.Add(1)
			sem <- struct{}{}
			go func(bin string, part []int) {
				defer wg.Done()
				defer func() { <-sem }()
				batch := make([]Scenario, len(part))
				for k, i := range part {
					batch[k] = scs[i]
				}
				rs, err := e.RunJob(bin, batch, 30*time.Minute)
				if err != nil {
					emu.Lock()
					if firstErr == nil {
						firstErr = err
					}
					emu.Unlock()
				}
				for k, i := range part {
					if k < len(rs) {
						results[i] = rs[k]
					}
				}
			}(bin, idxs[lo:hi])
		}
	}
	wg.Wait()
	return results, firstErr
}

// Bin returns the simulation binary of a world.
func (e *Engine) Bin(world string, race bool) string {
	if world == "" {
		world = Worlds[0].Name
	}
	if race {
		return e.Race[world]
	}
	return e.Plain[world]
}

// ---- sampling

var ops = []string{"echoJSON", "echoJSON", "echoJSONStream", "echoForm", "echoMultipart", "echoStream", "variants", "secure", "secure2", "echoWild", "echoParams", "echoParams", "echoShapes", "echoShapes", "echoSeg", "echoOpt", "echoAny", "echoItem", "echoItem", "echoItemRecent"}
var invalids = []string{"pattern", "regexp2", "multipleOf", "maxLength", "enum", "tagpattern", "maxprops", "maxItems", "unique", "notelong", "aliaslong", "retriesbig", "ratioedge", "subnum", "sublabel", "attrlong", "attrsempty", "treelabel", "treelong", "twigsize", "twiglabel", "multnear"}
var readers = []string{"bytes", "bytes", "onebyte", "dataerr", "half"}
var creds = []string{"header", "basic+query", "bearer", "header", "none", "wrong"}

// hostileTexts are values an intermediary (or a careless peer) may put where a parameter is expected.
var hostileTexts = []string{"", " ", "1 ", " 1", "+1", "-", "--1", "1.0", "1e3", "0x10", "1_000", "９", "99999999999999999999", "-99999999999999999999",
	"2147483648", "300", "-129", "256", "70000", "65536", "-32769", "128", "-1", "4294967296", "NaN", "Inf", "true", "null", "1,2", "1;2", "\x7f", "a:b", "://x", "http://[::1", "http://h:port/", "2021-13-45", "2021-02-30", "2021-1-2",
	"0000-00-00", "3fa85f64-5717-4562-b3fc-2c963f66afa", "zfa85f64-5717-4562-b3fc-2c963f66afa6", "{}", "[]", "256.1.1.1", "1.2.3", "P1D", "1h", "-1s",
	"2021-01-02 03:04:05", "12", "delta", "Alpha", "role,admin,name", "role,admin,name,", "role", "role,admin,role,root", "name,n,role,r,x", strings.Repeat("1", 5000), strings.Repeat("a", 70000)}

// rawEscapes go on the wire as they are: escapes that decode to nothing sensible.
var rawEscapes = []string{"%zz", "%", "%4", "a%00b", "%C0%AF", "%FF%FE", "%2", "1%", "%41%4", "a%2Cb%3", "%41%", "%41%zz", "%%", "%4%41", "%41%42%", "x%3Dy%2"}

// rawSegments go into the path as they are: escaped slashes, bytes net/url would have escaped, dot segments,
// literal slashes (which change the number of segments), escaped delimiters.
var rawSegments = []string{"a%2Fb", "a|b%2Fkeys", "é%2Fx", "%2F", "a%2F..%2Fb", "..", ".", "a%3Fb", "a%23b", "a;b", "a%20b", "x/y", "/", "%65cho", "json%2F1", "shapes%2Falpha",
	"recentX", "recent1", "recen", "Recent", "recent%20", "jsonstreamX", "jsonstream1", "json1", "formX", "paramsX", "secure2x", "variantsX", "echoX", "optX", "anyX", "1%2F2", "alpha%2F", "%2Falpha", "a{b}", "a\"b", "a^b", "a`b", "%7Bid%7D", "1/2/3", "params%2Fa%2F1%2F.b"}

// worldRoutes: the world's path templates, segment by segment ("*" = a parameter).
var worldRoutes = []struct {
	op, method string
	segs       []string
}{
	{"echoJSON", "POST", []string{"echo", "json", "*"}}, {"echoJSONStream", "POST", []string{"echo", "jsonstream"}}, {"echoForm", "POST", []string{"echo", "form"}},
	{"echoMultipart", "POST", []string{"echo", "multipart"}}, {"echoStream", "POST", []string{"echo", "stream"}}, {"echoWild", "POST", []string{"echo", "wild"}},
	{"echoParams", "GET", []string{"echo", "params", "*", "*", "*"}}, {"echoShapes", "POST", []string{"echo", "shapes", "*"}}, {"variants", "POST", []string{"variants"}},
	{"secure", "GET", []string{"secure"}}, {"secure2", "GET", []string{"secure2"}}, {"echoOpt", "POST", []string{"echo", "opt"}}, {"echoAny", "POST", []string{"echo", "any"}}, {"echoItemRecent", "GET", []string{"echo", "item", "recent"}}, {"echoItem", "GET", []string{"echo", "item", "*"}}, {"echoSeg", "GET", []string{"echo", "seg", "~^.+;.+$|v;v", "~^v\\(.+\\)$|v(v)"}},
}

// worldRoute says which operation a raw (escaped) path designates: segments are what lies between literal
// slashes; a static segment matches by its decoded text, a parameter takes any non-empty segment.
// It returns the operation ("" = no such path) and the method it accepts.
func worldRoute(raw string) (op, method string) {
	if !strings.HasPrefix(raw, "/") {
		return "", ""
	}
	segs := strings.Split(raw[1:], "/")
	for _, rt := range worldRoutes {
		if len(rt.segs) != len(segs) {
			continue
		}
		ok := true
		for i, want := range rt.segs {
			got, err := url.PathUnescape(segs[i])
			if re, _, partial := strings.Cut(strings.TrimPrefix(want, "~"), "|"); partial && strings.HasPrefix(want, "~") {
				// parameters that share the segment with literal text: "~<regular expression>|<placeholder>"
				if err != nil || !regexp.MustCompile(re).MatchString(got) {
					ok = false
					break
				}
				continue
			}
			if err != nil || (want == "*" && segs[i] == "") || (want != "*" && got != want) {
				ok = false
				break
			}
		}
		if ok {
			return rt.op, rt.method
		}
	}
	return "", ""
}

// worldPath is the escaped path the generated client sends for an operation, up to its parameter values
// (used to rebuild what a path rewrite made of it: only the number of segments and the static ones matter).
func worldPathAfter(op string, seg int, val string) (string, bool) {
	for _, rt := range worldRoutes {
		if rt.op != op {
			continue
		}
		segs := make([]string, len(rt.segs))
		for i, s := range rt.segs {
			segs[i] = s
			if s == "*" {
				segs[i] = "v" // stands for whatever non-empty value the client sent
			}
			if _, ph, ok := strings.Cut(s, "|"); ok && strings.HasPrefix(s, "~") {
				segs[i] = ph
			}
		}
		segs[seg%len(segs)] = val
		return "/" + strings.Join(segs, "/"), true
	}
	return "", false
}

// sampleMangle draws a rewrite of one piece of the request head. targets: e.g. "query:n32", "header#1", "path:2".
// authTexts: Authorization values in which the scheme name is not followed by exactly the separator and a token
// (the token itself is one the world's security handler would accept), or which are no credentials at all.
var authTexts = []string{"Bearer=good-z", "Bearer\tgood-z", "BearerXgood-z", "bearer_good-z", "Bearergood-z", "Bearer", "Bearer ", "Basic", "Basic !!!", "Basic Z29vZA",
	"Basic=Z29vZC11OnA=", "BasicXZ29vZC11OnA=", "Token good-z", "good-z", "Bearer:good-z", "Bearer,good-z"}

func sampleMangle(rng *rand.Rand, targets []string) *Fault {
	t := targets[rng.Intn(len(targets))]
	text := hostileTexts[rng.Intn(len(hostileTexts))]
	if t == "header:Authorization" {
		text = authTexts[rng.Intn(len(authTexts))]
	}
	f := &Fault{Kind: "mangle", Arg: t}
	switch {
	case strings.HasPrefix(t, "query"):
		f.Val = url.QueryEscape(text)
		if rng.Intn(6) == 0 {
			f.Val = rawEscapes[rng.Intn(len(rawEscapes))]
		}
	case strings.HasPrefix(t, "path"):
		f.Val = url.PathEscape(text)
		if text == "" {
			f.Val = "%20"
		}
	default:
		// header and cookie values go as they are; what net/http refuses to write is not sent at all
		for len(text) > 4000 || strings.ContainsAny(text, "\x7f\x00\r\n") {
			text = hostileTexts[rng.Intn(len(hostileTexts))]
		}
		f.Val = text
		if strings.HasPrefix(t, "cookie") && rng.Intn(3) == 0 {
			// cookie values are percent-decoded by ogen itself: broken, truncated and stacked escapes
			f.Val = rawEscapes[rng.Intn(len(rawEscapes))]
		}
	}
	return f
}

// mangledText is the text the server's decoder is handed for a mangled piece ("" , false when that depends on
// net/http's own leniency and is not judged).
func mangledText(f *Fault) (string, bool) {
	switch {
	case strings.HasPrefix(f.Arg, "query"):
		t, err := url.QueryUnescape(f.Val)
		return t, err == nil
	case strings.HasPrefix(f.Arg, "path"):
		t, err := url.PathUnescape(f.Val)
		return t, err == nil
	case strings.HasPrefix(f.Arg, "header"):
		return strings.TrimSpace(f.Val), true
	case strings.HasPrefix(f.Arg, "cookie"):
		for _, c := range f.Val {
			if !(c >= '0' && c <= '9' || c >= 'a' && c <= 'z' || c >= 'A' && c <= 'Z' || c == '.' || c == '+' || c == '-') {
				return "", false
			}
		}
		return f.Val, true
	}
	return "", false
}

var (
	reDate = regexp.MustCompile(`^[0-9]{4}-[0-9]{2}-[0-9]{2}$`)
	reIPv4 = regexp.MustCompile(`^[0-9]{1,3}(\.[0-9]{1,3}){3}$`)
)

// certainlyInvalid: no reading of the OpenAPI type admits the text. (Deliberately coarse: what a lenient parser
// might accept - a leading plus, other UUID spellings - is not judged.)
func certainlyInvalid(typ, text string) bool {
	if strings.TrimSpace(text) == "" {
		return false
	}
	switch typ {
	case "int8", "int16", "uint8", "uint16":
		if certainlyInvalid("int64", text) {
			return true
		}
		v, err := strconv.ParseInt(text, 10, 64)
		if err != nil {
			return false // a spelling this rule does not judge
		}
		lim := map[string][2]int64{"int8": {-128, 127}, "int16": {-32768, 32767}, "uint8": {0, 255}, "uint16": {0, 65535}}[typ]
		return v < lim[0] || v > lim[1]
	case "int32", "int64", "int":
		digits := 0
		for _, c := range text {
			switch {
			case c >= '0' && c <= '9':
				digits++
			case c == '+' || c == '-':
			default:
				return true
			}
		}
		if digits == 0 || digits > 19 {
			return true
		}
		if typ == "int32" && digits > 10 {
			return true
		}
		return false
	case "uuid":
		hex := 0
		for _, c := range text {
			if c >= '0' && c <= '9' || c >= 'a' && c <= 'f' || c >= 'A' && c <= 'F' {
				hex++
			}
		}
		return hex < 32 || strings.ContainsAny(text, "zZ ")
	case "date":
		return !reDate.MatchString(text)
	case "date-time":
		return !strings.ContainsAny(text, "Tt") || len(text) < 20
	case "ipv4":
		if !reIPv4.MatchString(text) {
			return true
		}
		for _, o := range strings.Split(text, ".") {
			if len(o) == 3 && o > "255" {
				return true
			}
		}
		return false
	case "kind":
		return text != "alpha" && text != "beta" && text != "gamma"
	case "kvlist":
		// an object in a non-exploded form or simple style is a list key,value,key,value: an odd number of pieces
		// leaves a key without a value
		return len(strings.Split(text, ","))%2 == 1
	}
	return false
}

// worldParamTypes: the typed parameters of the world an intermediary can be aimed at, per operation.
var worldParamTypes = map[string]map[string]string{
	"echoShapes": {"query:n32": "int32", "query:id": "uuid", "query:when": "date", "query:at": "date-time", "query:addr": "ipv4", "header:X-Num": "int64", "cookie:cnum": "int", "path:2": "kind",
		"query:link": "", "query:ratio": "", "query:dur": "", "query:big": "", "header:X-Flag": "",
		"query:lvl": "int8", "header:X-Cnt": "int16", "cookie:u8": "uint8", "query:u16s": "",
		"query:obj": "kvlist", "header:X-Obj": "kvlist"},
	"echoJSON":       {"path:2": "int64", "header:X-Req": "", "query:q": "", "cookie:sess": ""},
	"echoStream":     {"header:X-Len": "int"},
	"echoParams":     {"path:3": "", "query:csv": "", "header:X-List": "", "cookie:ck": ""},
	"echoItem":       {"path:2": "same"},
	"echoItemRecent": {"path:2": "same"},
	"secure":         {"query:who": "", "header:Authorization": "authz", "header:X-Api-Key": "", "query:api_key": ""},
	"secure2":        {"header:Authorization": "authz", "header:X-Api-Key": ""},
}

// Mode selects the fault distribution.
type Mode int

const (
	ModeC19      Mode = iota // many tasks, a minority of faulted (noisy) calls and invalid requests
	ModeC01Clean             // delivery variations only (chunking, delays, duplicate delivery, replay)
	ModeC01Fault             // cut, reset, cancel, response cut
	ModeC15                  // every call damaged in flight
)

func sampleCall(rng *rand.Rand, mode Mode) Call {
	c := Call{Op: ops[rng.Intn(len(ops))], V: rng.Uint64() >> 1, Reader: readers[rng.Intn(len(readers))]}
	if c.Op == "secure" {
		c.Cred = creds[rng.Intn(len(creds))]
		if mode == ModeC01Clean && rng.Intn(2) == 0 {
			c.Cred = creds[rng.Intn(3)]
		}
	}
	if c.Op == "secure2" {
		c.Cred = []string{"h+basic", "h+bearer", "h+basic", "h+bearer", "header", "bearer", "wrong"}[rng.Intn(7)]
	}
	invalidP := map[Mode]int{ModeC19: 6, ModeC01Clean: 10, ModeC01Fault: 12, ModeC15: 8}[mode]
	if (c.Op == "echoJSON" || c.Op == "echoJSONStream") && rng.Intn(invalidP) == 0 {
		c.Invalid = invalids[rng.Intn(len(invalids))]
	}
	if c.Op == "echoForm" && rng.Intn(invalidP*2) == 0 {
		c.Invalid = "minLength"
	}
	if c.Op == "echoForm" && c.Invalid == "" && (mode == ModeC01Clean || mode == ModeC01Fault) && rng.Intn(20) == 0 {
		c.Huge = true // a form member longer than ten MiB: delivered whole or refused, never cut
	}
	if c.Op == "echoParams" && rng.Intn(3) == 0 {
		c.Invalid = "delim" // values containing a style's delimiter: outside the core domain, may be refused
	}
	frac := func() int { // per-mille of the wire length, biased to land inside the body
		switch rng.Intn(6) {
		case 0:
			return 1 + rng.Intn(150) // in the head
		case 1:
			return 990 + rng.Intn(10) // right before the end
		default:
			return 150 + rng.Intn(850)
		}
	}
	switch mode {
	case ModeC19:
		if rng.Intn(7) == 0 {
			k := []string{"cut-req", "reset-req", "cancel", "cut-resp", "reset-resp", "writer-fail"}[rng.Intn(6)]
			c.Fault = &Fault{Kind: k, Frac: frac(), At: 1 + rng.Intn(40)}
			if k == "cancel" || k == "writer-fail" {
				c.Fault.Frac = 0
			}
		} else if rng.Intn(8) == 0 {
			// benign link behaviour: the call's outcome must still equal its outcome when run alone
			c.Fault = &Fault{Kind: []string{"replay", "replay", "dup"}[rng.Intn(3)]}
		}
	case ModeC01Clean:
		switch rng.Intn(8) {
		case 0:
			c.Fault = &Fault{Kind: "dup"}
		case 1:
			c.Fault = &Fault{Kind: "replay"}
		}
	case ModeC01Fault:
		k := []string{"cut-req", "reset-req", "cancel", "cut-resp", "reset-resp"}[rng.Intn(5)]
		c.Fault = &Fault{Kind: k, Frac: frac(), At: 1 + rng.Intn(60)}
		if k == "cancel" {
			c.Fault.Frac = 0
		}
	case ModeC15:
		switch rng.Intn(14) {
		case 0, 1, 2:
			c.Fault = &Fault{Kind: "cut-req", Frac: frac()}
		case 3, 4:
			c.Fault = &Fault{Kind: "reset-req", Frac: frac()}
		case 5:
			c.Fault = &Fault{Kind: "cancel", At: 1 + rng.Intn(60)}
		case 6:
			c.Fault = &Fault{Kind: "writer-fail", At: rng.Intn(300)}
		case 7:
			c.Fault = &Fault{Kind: "ctype", Arg: []string{"", "text/weird", "application/json; charset=", "multipart/form-data", ";;;", "application", "application;", "APPLICATION", "multipart", "text", "application/", "/json"}[rng.Intn(12)]}
		case 8:
			c.Fault = &Fault{Kind: "method", Arg: []string{"GET", "PUT", "DELETE", "PATCH", "POST", "HEAD"}[rng.Intn(6)]}
		case 9:
			c.Fault = &Fault{Kind: "drop-header", Arg: []string{"X-Req", "Content-Type", "X-Api-Key", "Authorization", "Cookie", "X-Len", "X-Num"}[rng.Intn(7)]}
		case 10:
			c.Fault = &Fault{Kind: "dup-header", Arg: []string{"X-Req", "Content-Type", "X-Api-Key", "X-Len"}[rng.Intn(4)]}
		case 11:
			c.Fault = &Fault{Kind: "drop-query", Arg: []string{"who", "q", "tags", "api_key"}[rng.Intn(4)]}
		case 12:
			c.Fault = &Fault{Kind: "flip", Frac: 0, At: rng.Intn(1200)}
			if rng.Intn(3) == 0 {
				c.Fault = &Fault{Kind: "lie-length", Arg: []string{"4611686018427387904", "9223372036854775807", "1152921504606846976"}[rng.Intn(3)]}
			}
		case 13:
			c.Fault = &Fault{Kind: []string{"dup", "replay"}[rng.Intn(2)]}
		}
		if rng.Intn(12) == 0 {
			// an intermediary rewrites one path segment, as written
			c.Fault = &Fault{Kind: "mangle", Arg: fmt.Sprintf("path:%d", rng.Intn(5)), Val: rawSegments[rng.Intn(len(rawSegments))]}
		} else if pt := worldParamTypes[c.Op]; pt != nil && rng.Intn(3) == 0 {
			var targets []string
			for t := range pt {
				targets = append(targets, t)
			}
			sort.Strings(targets)
			c.Fault = sampleMangle(rng, targets)
			if rng.Intn(8) == 0 && strings.HasPrefix(c.Fault.Arg, "query:") {
				c.Fault = &Fault{Kind: "dup-query", Arg: strings.TrimPrefix(c.Fault.Arg, "query:")}
			}
		}
		if c.Op == "echoForm" && rng.Intn(4) == 0 {
			c.Fault = &Fault{Kind: []string{"drop-field", "drop-field", "dup-field"}[rng.Intn(3)], Arg: []string{"name", "age", "nick", "langs"}[rng.Intn(4)]}
		}
		if c.Op == "echoForm" && rng.Intn(60) == 0 {
			// ten MiB of padding and then a field the schema does not admit
			c.Fault = &Fault{Kind: "append", Arg: "BIGFORM:" + []string{"&age=notanumber", "&name=twice", "&age=%zz"}[rng.Intn(3)]}
		}
		if c.Op == "echoShapes" && rng.Intn(10) == 0 {
			// a member the deepObject parameter's schema (additionalProperties: false) does not declare
			c.Fault = &Fault{Kind: "add-query", Arg: []string{"filter[sizf]=3", "filter[zz]=x&filter[zz]=y", "filter[status][x]=1", "filter[]=1"}[rng.Intn(4)]}
		}
		if c.Op == "echoMultipart" && rng.Intn(4) == 0 {
			c.Fault = &Fault{Kind: []string{"drop-field", "drop-field", "dup-field"}[rng.Intn(3)], Arg: []string{"name", "count", "file", "extra"}[rng.Intn(4)]}
		}
		if f := c.Fault; f != nil && (f.Kind == "drop-field" || f.Kind == "dup-field") && rng.Intn(3) == 0 {
			f.Val = f.Arg + "=smuggled" // a query pair with the lost field's name is no substitute for the field
		}
		if (c.Op == "echoJSON" || c.Op == "echoJSONStream" || c.Op == "variants" || c.Op == "echoShapes") && rng.Intn(8) == 0 {
			// a re-framing intermediary appends to the body: trailing data after a complete JSON document
			c.Fault = &Fault{Kind: "append", Arg: []string{"}", "]", ",", "\x00", "\ngarbage", "{}", " null", "1", "\"x\"", " \n\t ", "\n", "}}", ":", "x"}[rng.Intn(14)]}
		}
	}
	return c
}

// SampleScenario draws one scenario (exported for the self-test).
func SampleScenario(rng *rand.Rand, mode Mode, i int, thorough bool) Scenario {
	return sampleScenario(rng, mode, i, thorough)
}

// Fingerprint renders everything a run observed except wall-clock and process-cumulative counters.
func Fingerprint(r *Result) string {
	c := *r
	c.WallMS, c.PoolReused, c.PoolPoison = 0, 0, 0
	b, _ := json.Marshal(c)
	return string(b)
}

func sampleScenario(rng *rand.Rand, mode Mode, i int, thorough bool) Scenario {
	sc := Scenario{
		ID:                 fmt.Sprintf("%s#%d", []string{"c19", "c01clean", "c01fault", "c15"}[mode], i),
		Seed:               rng.Uint64() >> 1,
		YieldP:             []float64{0.05, 0.3, 1, 1}[rng.Intn(4)],
		MaxDelay:           []int{1, 2, 4, 20}[rng.Intn(4)],
		Procs:              []int{1, 2, 4, 8, 16}[rng.Intn(5)],
		MaxMultipartMemory: []int64{0, 1, 64, 1000, 32 << 20}[rng.Intn(5)],
		PoolPolicy:         rng.Intn(3),
		Poison:             rng.Intn(4) != 0,
		MapPolicy:          []int{2, 3, 4, 4, 1}[rng.Intn(5)], // never native: an uncontrolled map order makes the wire bytes, and with them the schedule, unrepeatable
	}
	switch rng.Intn(5) {
	case 0:
		sc.MinChunk, sc.MaxChunk = 1, 1
	case 1:
		sc.MinChunk, sc.MaxChunk = 1, 7
	case 2:
		sc.MinChunk, sc.MaxChunk = 1, 64
	case 3:
		sc.MinChunk, sc.MaxChunk = 16, 1500
	default:
		sc.MinChunk, sc.MaxChunk = 1<<16, 1<<16
	}
	nTasks, nOps := 1, 1
	switch mode {
	case ModeC19:
		nTasks = 2 + rng.Intn(7)
		if thorough && rng.Intn(6) == 0 {
			nTasks = 9 + rng.Intn(24)
		}
		nOps = 2 + rng.Intn(5)
	default:
		nTasks = 1 + rng.Intn(2)
		nOps = 1 + rng.Intn(4)
	}
	if sc.MinChunk == 1 && sc.MaxChunk == 1 && nTasks*nOps > 12 {
		sc.MaxChunk = 7 // one-byte delivery of many large bodies is all yields and no coverage
	}
	for t := 0; t < nTasks; t++ {
		var calls []Call
		for o := 0; o < nOps; o++ {
			calls = append(calls, sampleCall(rng, mode))
		}
		sc.Tasks = append(sc.Tasks, calls)
	}
	for _, calls := range sc.Tasks {
		for _, c := range calls {
			if c.Huge {
				// ten MiB in pieces of a few bytes would be millions of yields and no coverage
				sc.MinChunk, sc.MaxChunk = 1<<16, 1<<16
				sc.YieldP = 0.05
			}
		}
	}
	return sc
}

// ---- oracles

type problem struct {
	Oracle string
	What   string
	Key    string
}

func first(r *CallRecord) *ServerSide {
	if len(r.Sides) > 0 {
		return r.Sides[0]
	}
	return nil
}

func faultKind(r *CallRecord) string {
	if r.Call.Fault == nil || !r.FaultFired {
		return ""
	}
	return r.Call.Fault.Kind
}

func benign(k string) bool { return k == "" || k == "dup" || k == "replay" }

func clip(s string, n int) string {
	if len(s) > n {
		return s[:n] + "…"
	}
	return s
}

// firstDiff shows where two canonical renderings start to differ.
func firstDiff(a, b string) string {
	i := 0
	for i < len(a) && i < len(b) && a[i] == b[i] {
		i++
	}
	lo := max(0, i-40)
	return fmt.Sprintf("at byte %d: expected …%s… got …%s…", i, clip(a[lo:], 120), clip(b[min(lo, len(b)):], 120))
}

// oracleC01: exact exchange; under link faults an error or the exact value, never a different one.
func oracleC01(r *CallRecord) []problem {
	var out []problem
	k := faultKind(r)
	add := func(oracle, what string) {
		out = append(out, problem{oracle, fmt.Sprintf("call t%d.o%d %s (fault %q, invalid %q, cred %q, reader %q): %s", r.Task, r.Op, r.Call.Op, k, r.Call.Invalid, r.Call.Cred, r.Call.Reader, what), r.Call.Op + "/" + k + "/" + oracle})
	}
	if !r.Returned {
		return nil // liveness is C19's
	}
	if r.Call.Fault != nil && !benign(r.Call.Fault.Kind) && !strings.HasSuffix(r.Call.Fault.Kind, "-req") && !strings.HasSuffix(r.Call.Fault.Kind, "-resp") && r.Call.Fault.Kind != "cancel" && r.Call.Fault.Kind != "writer-fail" {
		return nil // in-flight alterations of the head are C15's business
	}
	valid := (r.Call.Invalid == "" || r.Call.Invalid == "delim") && r.ExpectErrClass == "" || strings.HasPrefix(r.ExpectErrClass, "status:")
	if r.MayRefuse && r.ClientErrClass != "" {
		// a value outside the core domain: one side reported an error instead of delivering it - fine, as long
		// as the handler did not get a different value
		for i, s := range r.Sides {
			if s.HandlerCalls != 0 && s.ServerSaw != r.ExpectServerSaw {
				add("a value that cannot be carried makes one side report an error instead of delivering a different value", fmt.Sprintf("delivery %d: %s", i, firstDiff(r.ExpectServerSaw, s.ServerSaw)))
			}
		}
		return out
	}
	if benign(k) && (r.Call.Fault == nil || benign(r.Call.Fault.Kind)) {
		// delivery variations only: everything exact
		if valid {
			for i, s := range r.Sides {
				if !s.Delivered {
					add("handler receives exactly what the caller supplied", fmt.Sprintf("delivery %d never reached the server: %s", i, s.ParseErr))
					continue
				}
				if s.HandlerCalls != 1 {
					add("handler receives exactly what the caller supplied", fmt.Sprintf("delivery %d: handler called %d times, status %d", i, s.HandlerCalls, s.Status))
					continue
				}
				if s.ServerSaw != r.ExpectServerSaw {
					add("handler receives exactly what the caller supplied (defaults applied)", fmt.Sprintf("delivery %d: %s", i, firstDiff(r.ExpectServerSaw, s.ServerSaw)))
				}
				if s.MiddlewareOps != 1 {
					add("installed middleware sees the request", fmt.Sprintf("delivery %d: middleware called %d times", i, s.MiddlewareOps))
				}
				if s.Status != r.ExpectStatus {
					add("caller receives the status the handler returned", fmt.Sprintf("delivery %d: status %d, expected %d", i, s.Status, r.ExpectStatus))
				}
			}
			if len(r.Sides) == 0 {
				add("handler receives exactly what the caller supplied", "request never delivered; client error: "+r.ClientErr)
			}
			if r.ClientErrClass != r.ExpectErrClass {
				add("caller receives exactly the response the handler returned", fmt.Sprintf("client error class %q (%s), expected %q", r.ClientErrClass, clip(r.ClientErr, 200), r.ExpectErrClass))
			} else if r.ExpectErrClass == "" && r.ClientGot != r.ExpectClientGot {
				add("caller receives exactly the response the handler returned", firstDiff(r.ExpectClientGot, r.ClientGot))
			}
		} else {
			// a value that cannot be accepted: one side reports an error, the handler is not reached
			if r.ClientErrClass == "" {
				add("an unacceptable value makes one side report an error", "client returned a result: "+clip(r.ClientGot, 200))
			}
			for i, s := range r.Sides {
				if s.HandlerCalls != 0 {
					add("an unacceptable value never reaches the handler", fmt.Sprintf("delivery %d: handler called, saw %s", i, clip(s.ServerSaw, 200)))
				}
			}
		}
		return out
	}
	// link fault: the client returns an error or the exact result; the handler is not called or called
	// with exactly the expected request (raw streams: a prefix plus a read error)
	if r.ClientErrClass == "" && r.ExpectErrClass == "" && valid && r.ClientGot != r.ExpectClientGot {
		add("under a link fault the caller gets an error or the exact result", firstDiff(r.ExpectClientGot, r.ClientGot))
	}
	if r.ClientErrClass == "" && !valid {
		add("under a link fault the caller gets an error or the exact result", "invalid request, yet the client returned a result: "+clip(r.ClientGot, 200))
	}
	for i, s := range r.Sides {
		if s.HandlerCalls == 0 {
			continue
		}
		if !valid {
			add("under a link fault the handler is not called with a different value", fmt.Sprintf("delivery %d: invalid request reached the handler", i))
			continue
		}
		if s.ServerSaw == r.ExpectServerSaw {
			continue
		}
		if (r.Call.Op == "echoStream" || r.Call.Op == "echoWild" || r.Call.Op == "echoOpt") && strings.Contains(s.ServerSaw, `Err:"read error"`) {
			continue // raw stream: a prefix and a read error
		}
		add("under a link fault the handler is not called with a different value", fmt.Sprintf("delivery %d: %s", i, firstDiff(r.ExpectServerSaw, s.ServerSaw)))
	}
	return out
}

var ogenStatuses = map[int]bool{400: true, 401: true, 404: true, 405: true, 415: true}

// oracleC15: one response, no panic, stage consistency, known classes for structured damage.
func oracleC15(r *CallRecord) []problem {
	var out []problem
	k := faultKind(r)
	add := func(oracle, what string) {
		out = append(out, problem{oracle, fmt.Sprintf("call t%d.o%d %s (fault %+v fired=%v, invalid %q, cred %q): %s", r.Task, r.Op, r.Call.Op, r.Call.Fault, r.FaultFired, r.Call.Invalid, r.Call.Cred, what), r.Call.Op + "/" + k + "/" + oracle})
	}
	for i, s := range r.Sides {
		if !s.Delivered {
			continue // damaged in the request head: net/http answers, ogen never sees it
		}
		if s.Panic != "" {
			add("server does not panic", fmt.Sprintf("delivery %d: panic: %s", i, clip(s.Panic, 300)))
			continue
		}
		if !s.Returned {
			add("ServeHTTP returns", fmt.Sprintf("delivery %d did not return", i))
			continue
		}
		// A client that does not read the body of an answer it cannot use (a text/plain 404, say) closes the
		// connection under the server's last writes. After a rewriting intermediary (mangle, dup-query) that is the only
		// way a write can fail - the client is alive - so the status and stage rules stay in force and only the
		// header-count rule is waived; under the other kinds a failed write means the client went away (F5) and
		// nothing beyond "no panic" is demanded.
		headRewritten := k == "mangle" || k == "dup-query"
		if s.WriteErrs > 0 && !headRewritten {
			continue
		}
		if s.WriteErrs == 0 && (s.Commits != 1 || s.WriteHeaders > 1 || s.WritesAfter > 0) {
			add("exactly one response", fmt.Sprintf("delivery %d: %d header commits, %d WriteHeader calls, %d writes after return", i, s.Commits, s.WriteHeaders, s.WritesAfter))
		}
		if !s.Explicit {
			add("exactly one response", fmt.Sprintf("delivery %d: the server wrote nothing (net/http would send an implicit 200)", i))
		}
		if s.HandlerCalls > 1 {
			add("handler invoked at most once", fmt.Sprintf("delivery %d: %d handler calls", i, s.HandlerCalls))
		}
		if s.DecodeErrBodyForeign || s.DecodeErrBodyChanged {
			add("the error handler is shown the rejected body of this request, and it stays what it is", fmt.Sprintf("delivery %d: DecodeBodyError.Body is not what was read from this request: %v, changed while the handler held it: %v", i, s.DecodeErrBodyForeign, s.DecodeErrBodyChanged))
		}
		if s.HandlerCalls == 0 && s.Explicit && !ogenStatuses[s.Status] {
			add("a request that does not reach the handler is answered 404/405/401/400/415", fmt.Sprintf("delivery %d: status %d without a handler call", i, s.Status))
		}
		if s.HandlerCalls == 1 {
			if s.MiddlewareOps != 1 {
				add("stage order", fmt.Sprintf("delivery %d: handler ran, middleware ran %d times", i, s.MiddlewareOps))
			}
			// the handler's own answer, the spec's error response, or 500
			if s.ServerSaw == r.ExpectServerSaw && r.Call.Invalid == "" {
				if s.Status != r.ExpectStatus && k != "writer-fail" {
					add("handler outcome surfaces as its response", fmt.Sprintf("delivery %d: status %d, the handler's answer is %d", i, s.Status, r.ExpectStatus))
				}
			} else if (r.Call.Op == "echoStream" || r.Call.Op == "echoWild" || r.Call.Op == "echoOpt") && strings.Contains(s.ServerSaw, `Err:"read error"`) {
				if s.Status != 500 {
					add("handler failures surface as the spec's error response or 500", fmt.Sprintf("delivery %d: handler failed, status %d", i, s.Status))
				}
			}
		}
		// known classes
		if r.Call.Invalid == "delim" {
			continue // C01's business
		}
		jsonish := r.Call.Op == "echoShapes" || r.Call.Op == "echoJSON" || r.Call.Op == "echoJSONStream" || r.Call.Op == "variants" || r.Call.Op == "echoForm" || r.Call.Op == "echoMultipart"
		switch {
		case (k == "cut-req" || k == "reset-req") && jsonish:
			// 400 without a handler call - or, when only bytes without meaning were lost (the tail of a
			// multipart closing delimiter), the complete request; never partial data
			if !(s.HandlerCalls == 0 && s.Status == 400) && !(s.HandlerCalls == 1 && s.ServerSaw == r.ExpectServerSaw && r.Call.Invalid == "") {
				add("a body cut or broken in flight is answered 400 and never reaches the handler with partial data", fmt.Sprintf("delivery %d: status %d, handler calls %d, handler saw %s", i, s.Status, s.HandlerCalls, clip(s.ServerSaw, 160)))
			}
		case k == "mangle" && strings.HasPrefix(r.Call.Fault.Arg, "path:") && r.Call.Cred == "" && worldParamTypes[r.Call.Op][r.Call.Fault.Arg] == "":
			var seg int
			fmt.Sscanf(r.Call.Fault.Arg, "path:%d", &seg)
			if raw, ok := worldPathAfter(r.Call.Op, seg, r.Call.Fault.Val); ok {
				op, method := worldRoute(raw)
				sent := "POST"
				if r.Call.Op == "echoParams" || r.Call.Op == "secure" || r.Call.Op == "secure2" || r.Call.Op == "echoSeg" || r.Call.Op == "echoItem" || r.Call.Op == "echoItemRecent" {
					sent = "GET"
				}
				switch {
				case op == "":
					if s.HandlerCalls != 0 || s.MiddlewareOps != 0 || s.Status != 404 {
						add("a path that designates no operation is answered 404 and reaches no handler", fmt.Sprintf("delivery %d: path rewritten to %s: status %d, handler calls %d, middleware saw %s", i, raw, s.Status, s.HandlerCalls, clip(s.MiddlewareSaw, 80)))
					}
				case method != sent:
					if s.HandlerCalls != 0 || s.MiddlewareOps != 0 || s.Status != 405 {
						add("a path whose operation does not take the method is answered 405 and reaches no handler", fmt.Sprintf("delivery %d: path rewritten to %s (%s %s): status %d, handler calls %d", i, raw, method, op, s.Status, s.HandlerCalls))
					}
				default:
					want := strings.ToUpper(op[:1]) + op[1:]
					if s.MiddlewareOps > 0 && !strings.HasPrefix(s.MiddlewareSaw, want+" ") {
						add("a request reaches only the operation its path designates", fmt.Sprintf("delivery %d: path rewritten to %s designates %s, middleware saw %s", i, raw, want, clip(s.MiddlewareSaw, 80)))
					}
					// (where parameters share a segment with literal text, which text belongs to which parameter is ogen's
					// choice: it may read the path as not matching)
					if s.MiddlewareOps == 0 && s.Status != 400 && s.Status != 401 && s.Status != 415 && !(s.Status == 404 && op == "echoSeg") {
						add("a request that does not reach the handler is answered 404/405/401/400/415", fmt.Sprintf("delivery %d: path rewritten to %s designates %s: status %d without a handler call", i, raw, want, s.Status))
					}
				}
			}
		case k == "mangle" && worldParamTypes[r.Call.Op][r.Call.Fault.Arg] == "same":
			// the last segment of /echo/item/... rewritten: "recent" designates the static operation, any other
			// non-empty text the templated one, whose handler then holds exactly that text
			if text, ok := mangledText(r.Call.Fault); ok && s.HandlerCalls == 1 {
				want := "name=" + text
				if text == "recent" {
					want = "recent"
				}
				if s.ServerSaw != want {
					add("a path parameter is the text of its segment", fmt.Sprintf("delivery %d: segment rewritten to %q: handler saw %q", i, text, clip(s.ServerSaw, 80)))
				}
			}
		case k == "mangle" && worldParamTypes[r.Call.Op][r.Call.Fault.Arg] == "authz":
			// whatever the Authorization header is rewritten to from authTexts, it is not a credential of the form
			// "<scheme> <token>" that the security handler accepts: no alternative is satisfied any more
			if s.HandlerCalls != 0 || s.Status != 401 {
				add("a malformed Authorization header satisfies no security requirement: 401, no handler call", fmt.Sprintf("delivery %d: Authorization rewritten to %q: status %d, handler calls %d, handler saw %s", i, r.Call.Fault.Val, s.Status, s.HandlerCalls, clip(s.ServerSaw, 160)))
			}
		case k == "mangle":
			if typ := worldParamTypes[r.Call.Op][r.Call.Fault.Arg]; typ != "" {
				if text, ok := mangledText(r.Call.Fault); ok && certainlyInvalid(typ, text) {
					if s.HandlerCalls != 0 || (s.Status != 400 && !(s.Status == 404 && strings.HasPrefix(r.Call.Fault.Arg, "path"))) {
						add("a parameter that no reading of its type admits is answered 400 and never reaches the handler", fmt.Sprintf("delivery %d: %s (%s) rewritten to %q: status %d, handler calls %d, handler saw %s", i, r.Call.Fault.Arg, typ, clip(text, 60), s.Status, s.HandlerCalls, clip(s.ServerSaw, 200)))
					}
				}
			}
		case k == "add-query" && r.Call.Op == "echoShapes":
			if s.HandlerCalls != 0 || s.Status != 400 {
				add("a member the parameter's schema does not declare (additionalProperties: false) is answered 400", fmt.Sprintf("delivery %d: %s appended: status %d, handler calls %d", i, r.Call.Fault.Arg, s.Status, s.HandlerCalls))
			}
		case k == "append" && r.Call.Op == "echoForm" && strings.HasPrefix(r.Call.Fault.Arg, "BIGFORM:") && r.Call.Invalid == "":
			if s.HandlerCalls != 0 || (s.Status != 400 && s.Status != 413) {
				add("what lies behind ten MiB of a form body is not simply cut off", fmt.Sprintf("delivery %d: %s after the padding: status %d, handler calls %d", i, r.Call.Fault.Arg[8:], s.Status, s.HandlerCalls))
			}
		case k == "drop-field" && r.Call.Invalid == "" && (r.Call.Op == "echoForm" || r.Call.Op == "echoMultipart"):
			required := r.Call.Fault.Arg == "name" || r.Call.Fault.Arg == "file"
			if required && (s.HandlerCalls != 0 || s.Status != 400) {
				add("a lost required field is answered 400 and never reaches the handler", fmt.Sprintf("delivery %d: field %q lost: status %d, handler calls %d, handler saw %s", i, r.Call.Fault.Arg, s.Status, s.HandlerCalls, clip(s.ServerSaw, 160)))
			}
			if !required && (s.HandlerCalls != 1 || s.Status != 200) {
				add("a lost optional field does not make the request unacceptable", fmt.Sprintf("delivery %d: field %q lost: status %d, handler calls %d", i, r.Call.Fault.Arg, s.Status, s.HandlerCalls))
			}
		case k == "append" && jsonish && r.Call.Invalid == "":
			if strings.TrimSpace(r.Call.Fault.Arg) == "" {
				if s.HandlerCalls != 1 || s.ServerSaw != r.ExpectServerSaw {
					add("trailing whitespace after a JSON body is harmless", fmt.Sprintf("delivery %d: status %d, handler calls %d", i, s.Status, s.HandlerCalls))
				}
			} else if s.HandlerCalls != 0 || s.Status != 400 {
				add("trailing data after a complete JSON body is answered 400 and never reaches the handler", fmt.Sprintf("delivery %d: trailing %q: status %d, handler calls %d", i, r.Call.Fault.Arg, s.Status, s.HandlerCalls))
			}
		case r.Call.Invalid != "" && benign(k) && (r.Call.Fault == nil || benign(r.Call.Fault.Kind)):
			if s.HandlerCalls != 0 || s.Status != 400 {
				add("a body that fails validation is answered 400 and never reaches the handler", fmt.Sprintf("delivery %d: status %d, handler calls %d", i, s.Status, s.HandlerCalls))
			}
		case k == "drop-header" && ((r.Call.Fault.Arg == "X-Req" && r.Call.Op == "echoJSON") || (r.Call.Fault.Arg == "X-Num" && r.Call.Op == "echoShapes")):
			if s.HandlerCalls != 0 || s.Status != 400 {
				add("a lost required parameter is answered 400", fmt.Sprintf("delivery %d: status %d, handler calls %d", i, s.Status, s.HandlerCalls))
			}
		case (r.Call.Op == "secure" || r.Call.Op == "secure2") && r.Call.Cred == "wrong" &&
			((k == "drop-query" && r.Call.Fault.Arg == "who") || (k == "mangle" && r.Call.Fault.Arg == "query:who") || (k == "dup-query" && r.Call.Fault.Arg == "who")):
			// two things are wrong with the request: the stage that comes first decides (security before parameters)
			if s.HandlerCalls != 0 || s.Status != 401 {
				add("a request without an acceptable credential is answered 401 whatever else is wrong with it (stage order)", fmt.Sprintf("delivery %d: status %d, handler calls %d", i, s.Status, s.HandlerCalls))
			}
		case k == "drop-query" && r.Call.Fault.Arg == "who" && (r.Call.Op == "secure" || r.Call.Op == "secure2"):
			if s.HandlerCalls != 0 || (s.Status != 400 && s.Status != 401) {
				add("a lost required parameter is answered 400", fmt.Sprintf("delivery %d: status %d, handler calls %d", i, s.Status, s.HandlerCalls))
			}
		case k == "ctype" && r.Call.Op != "secure" && r.Call.Op != "secure2" && r.Call.Op != "echoParams" && r.Call.Op != "echoSeg" && r.Call.Op != "echoItem" && r.Call.Op != "echoItemRecent" && !(r.Call.Op == "echoOpt" && !r.HasBody) && (r.Call.Fault.Arg == "text/weird" || r.Call.Fault.Arg == ";;;" || r.Call.Fault.Arg == "" || !strings.Contains(r.Call.Fault.Arg, "/")):
			if s.HandlerCalls != 0 || (s.Status != 415 && s.Status != 400) {
				add("a wrong or missing content type is answered 415/400", fmt.Sprintf("delivery %d: status %d, handler calls %d", i, s.Status, s.HandlerCalls))
			}
		case k == "method" && r.Call.Fault.Arg != "POST" && r.Call.Op != "secure" && r.Call.Op != "secure2" && r.Call.Op != "echoParams" && r.Call.Op != "echoSeg" && r.Call.Op != "echoItem" && r.Call.Op != "echoItemRecent":
			if s.HandlerCalls != 0 || s.Status != 405 || s.Allow != "POST" {
				add("an undefined method is answered 405 with Allow", fmt.Sprintf("delivery %d: status %d, Allow %q, handler calls %d", i, s.Status, s.Allow, s.HandlerCalls))
			}
		case (r.Call.Op == "secure" || r.Call.Op == "secure2") && r.ExpectStatus == 200 &&
			((k == "drop-header" && (r.Call.Fault.Arg == "X-Api-Key" || r.Call.Fault.Arg == "Authorization")) || (k == "drop-query" && r.Call.Fault.Arg == "api_key")):
			// every credential set the client offers is exactly one alternative: losing one credential in flight
			// leaves no alternative satisfied
			if s.HandlerCalls != 0 || s.Status != 401 {
				add("a request whose security requirement is no longer met is answered 401 and never reaches the handler", fmt.Sprintf("delivery %d: status %d, handler calls %d, handler saw %s", i, s.Status, s.HandlerCalls, clip(s.ServerSaw, 200)))
			}
		case (r.Call.Op == "secure" || r.Call.Op == "secure2") && (r.Call.Cred == "wrong") && benign(k):
			if s.HandlerCalls != 0 || s.Status != 401 {
				add("failed security is answered 401 and never reaches the handler", fmt.Sprintf("delivery %d: status %d, handler calls %d", i, s.Status, s.HandlerCalls))
			}
		case (k == "dup" || k == "replay") && r.Call.Invalid == "" && r.ExpectErrClass == "" && !((r.Call.Op == "secure" || r.Call.Op == "secure2") && r.Call.Cred == "wrong"):
			if s.HandlerCalls != 1 || s.ServerSaw != r.ExpectServerSaw || s.Status != r.ExpectStatus {
				add("benign redelivery is handled like the original", fmt.Sprintf("delivery %d: status %d (expected %d), handler calls %d", i, s.Status, r.ExpectStatus, s.HandlerCalls))
			}
		}
	}
	return out
}

// oracleC19: a call's outcome equals its outcome when run alone.
func oracleC19(alone, conc *CallRecord) []problem {
	var out []problem
	add := func(oracle, what string) {
		out = append(out, problem{oracle, fmt.Sprintf("call t%d.o%d %s (invalid %q, cred %q): %s", conc.Task, conc.Op, conc.Call.Op, conc.Call.Invalid, conc.Call.Cred, what), conc.Call.Op + "/" + oracle})
	}
	if !conc.Returned {
		add("every call returns once faults stop (bounded liveness)", "the call never returned")
		return out
	}
	if conc.Call.Fault != nil && !benign(conc.Call.Fault.Kind) {
		return nil // a faulted neighbour may fail in any way its fault allows
	}
	if alone == nil {
		return nil
	}
	if conc.ClientErrClass != alone.ClientErrClass {
		add("outcome equals the outcome when run alone", fmt.Sprintf("client error class %q (%s), alone %q (%s)", conc.ClientErrClass, clip(conc.ClientErr, 160), alone.ClientErrClass, clip(alone.ClientErr, 160)))
	}
	if conc.ClientGot != alone.ClientGot {
		add("outcome equals the outcome when run alone: what the client got", firstDiff(alone.ClientGot, conc.ClientGot))
	}
	a, c := first(alone), first(conc)
	switch {
	case a == nil && c == nil:
	case a == nil || c == nil:
		add("outcome equals the outcome when run alone", "delivered in one run only")
	default:
		if a.Status != c.Status || a.HandlerCalls != c.HandlerCalls {
			add("outcome equals the outcome when run alone", fmt.Sprintf("status %d / %d handler calls, alone %d / %d", c.Status, c.HandlerCalls, a.Status, a.HandlerCalls))
		}
		if a.ServerSaw != c.ServerSaw {
			add("outcome equals the outcome when run alone: what the handler received", firstDiff(a.ServerSaw, c.ServerSaw))
		}
		if a.MiddlewareSaw != c.MiddlewareSaw {
			add("outcome equals the outcome when run alone: what the middleware saw", firstDiff(a.MiddlewareSaw, c.MiddlewareSaw))
		}
		if c.DecodeErrBodyForeign || c.DecodeErrBodyChanged || a.DecodeErrBody != c.DecodeErrBody {
			add("outcome equals the outcome when run alone: the rejected body the error handler is shown", fmt.Sprintf("digest %q (not this request's: %v, changed while held: %v), alone %q", c.DecodeErrBody, c.DecodeErrBodyForeign, c.DecodeErrBodyChanged, a.DecodeErrBody))
		}
		if a.Middleware2Saw != c.Middleware2Saw {
			add("outcome equals the outcome when run alone: what the second middleware of the chain saw", fmt.Sprintf("%q, alone %q", c.Middleware2Saw, a.Middleware2Saw))
		}
	}
	return out
}

// ---- the three checks

type spec struct {
	id     string
	modes  []Mode
	nQuick []int
	nThor  []int
	race   int // one in `race` scenarios also runs in the race binary (0 = none)
	apply  func(res *Result) []problem
}

var specs = map[string]spec{
	"C19": {id: "C19", modes: []Mode{ModeC19}, nQuick: []int{5000}, nThor: []int{150000}, race: 4,
		apply: func(res *Result) []problem {
			var out []problem
			aloneBy := map[[2]int]*CallRecord{}
			for _, a := range res.Alone {
				aloneBy[[2]int{a.Task, a.Op}] = a
			}
			for _, c := range res.Conc {
				out = append(out, oracleC19(aloneBy[[2]int{c.Task, c.Op}], c)...)
			}
			if res.Deadlock != "" {
				out = append(out, problem{"no task blocks forever (bubble deadlock)", clip(res.Deadlock, 1500), "deadlock"})
			}
			return out
		}},
	"C01": {id: "C01", modes: []Mode{ModeC01Clean, ModeC01Fault}, nQuick: []int{12000, 8000}, nThor: []int{600000, 400000}, race: 0,
		apply: func(res *Result) []problem {
			var out []problem
			for _, c := range res.Alone {
				out = append(out, oracleC01(c)...)
			}
			for _, c := range res.Conc {
				out = append(out, oracleC01(c)...)
			}
			return out
		}},
	"C15": {id: "C15", modes: []Mode{ModeC15}, nQuick: []int{20000}, nThor: []int{1000000}, race: 0,
		apply: func(res *Result) []problem {
			var out []problem
			for _, c := range res.Alone {
				out = append(out, oracleC15(c)...)
			}
			for _, c := range res.Conc {
				out = append(out, oracleC15(c)...)
			}
			return out
		}},
}

// scaled applies the development knob VERIF_X_SCALE (a factor on scenario counts).
func scaled(n int) int {
	if v := os.Getenv("VERIF_X_SCALE"); v != "" {
		var f float64
		if _, err := fmt.Sscan(v, &f); err == nil && f > 0 {
			return max(1, int(float64(n)*f))
		}
	}
	return n
}

// Run returns the check function for one of C19, C01, C15.
func Run(id string) core.CheckFunc {
	return func(c *core.Ctx) (*core.Outcome, error) {
		sp := specs[id]
		// C15 and C19 also drive servers regenerated from the repository's corpus (quick: a spread of 6, thorough: all)
		corpus := 0
		if id == "C15" || id == "C19" || id == "C01" {
			corpus = 6
			if c.Tier == "thorough" {
				corpus = -1
			}
		}
		isCorpusReplay := false
		if c.Replay != nil {
			var probe struct {
				Binary string `json:"binary"`
			}
			_ = json.Unmarshal(c.Replay.Scenario, &probe)
			isCorpusReplay = strings.HasPrefix(probe.Binary, "corpus-")
			if isCorpusReplay {
				corpus = -1
			} else {
				corpus = 0
			}
		}
		e, err := NewEngineCorpus(c.ID, sp.race > 0 || c.Replay != nil, corpus)
		if err != nil {
			return nil, err
		}
		defer e.S.Remove()
		if c.Replay != nil {
			if isCorpusReplay {
				return e.replayCorpus(c, id, c.Replay.Scenario, strings.Contains(string(c.Replay.Scenario), `"corpus-race"`))
			}
			return e.replay(c, sp)
		}
		out, err := e.check(c, sp)
		if err != nil || corpus == 0 {
			return out, err
		}
		parts := map[string]func(*core.Ctx, string) ([]core.Violation, map[string]any, error){"typed_corpus_exchange": e.checkTyped}
		if id != "C01" && os.Getenv("VERIF_TYPED_ONLY") == "" {
			parts["corpus_driver"] = e.checkCorpus
		}
		for _, name := range []string{"corpus_driver", "typed_corpus_exchange"} {
			part := parts[name]
			if part == nil {
				continue
			}
			vs, info, err := part(c, id)
			if err != nil {
				return nil, err
			}
			out.Violations = append(out.Violations, vs...)
			out.Evidence.Coverage[name] = info
			if n, ok := info["runs"].(int); ok {
				out.Evidence.Coverage["evaluations"] = out.Evidence.Coverage["evaluations"].(int) + n
			}
			if n, ok := info["distinct_schedules"].(int); ok {
				out.Evidence.Coverage["distinct_nontrivial"] = out.Evidence.Coverage["distinct_nontrivial"].(int) + n
			}
		}
		out.Evidence.Coverage["corpus_skipped"] = e.CorpusSkipped
		return out, nil
	}
}

type replayScenario struct {
	Binary   string   `json:"binary"`
	Scenario Scenario `json:"scenario"`
}

func (e *Engine) check(c *core.Ctx, sp spec) (*core.Outcome, error) {
	rng := rand.New(rand.NewSource(c.Seed))
	var scs []Scenario
	var raceScs []Scenario
	for mi, m := range sp.modes {
		n := sp.nQuick[mi]
		if c.Tier == "thorough" {
			n = sp.nThor[mi]
		}
		n = scaled(n)
		if os.Getenv("VERIF_TYPED_ONLY") != "" {
			n = 10 // development knob: only the typed corpus exchange is of interest
		}
		for i := 0; i < n; i++ {
			sc := sampleScenario(rng, m, i, c.Tier == "thorough")
			scs = append(scs, sc)
			if sp.race > 0 && i%sp.race == 0 {
				r := sc
				r.SkipAlone = true
				raceScs = append(raceScs, r)
			}
		}
	}
	if p := os.Getenv("VERIF_DUMP_SCENARIOS"); p != "" {
		b, _ := json.Marshal(map[string]any{"scenarios": scs, "out": p + ".out"})
		_ = os.WriteFile(p, b, 0o644)
	}
	t0 := time.Now()
	var raceRes []Result
	var rerr error
	var wg sync.WaitGroup
	if len(raceScs) > 0 {
		wg.Add(1)
		go func() { defer wg.Done(); raceRes, rerr = e.RunAll(true, raceScs, 20, c.Jobs) }()
	}
	var wall time.Duration

	out := &core.Outcome{}
	type fail struct {
		sc  Scenario
		p   problem
		bin string
	}
	var fails []fail
	distinct := map[string]bool{}
	configured, fired := map[string]int{}, map[string]int{}
	opCount := map[string]int{}
	probes := map[string]int{"multipart_part_spilled_to_temp_file": 0, "handler_not_reached": 0, "context_switch_inside_an_operation": 0, "invalid_request": 0, "duplicate_delivery": 0, "replay_from_getbody": 0, "head_damaged_before_ogen": 0}
	var calls, yields, switches int
	var fakeNS int64
	// The plain runs are evaluated chunk by chunk: a result carries the canonical renderings of everything that
	// was exchanged, and a thorough tier's worth of them does not have to sit in memory at once.
	const chunk = 20000
	sampleInfo := map[int]map[string]any{}
	for lo := 0; lo < len(scs); lo += chunk {
		hi := min(lo+chunk, len(scs))
		plainRes, perr := e.RunAll(false, scs[lo:hi], 40, c.Jobs)
		if perr != nil {
			wg.Wait()
			return nil, perr
		}
		for j := range plainRes {
			i := lo + j
			res := &plainRes[j]
			if i%max(1, len(scs)/3) == 0 {
				sampleInfo[i] = map[string]any{"scenario": scs[i], "sched_hash": res.SchedHash, "yields": res.Yields, "context_switches": res.Switches}
			}
			if res.ToolTrouble != "" {
				return nil, build.Toolf("scenario %s: %s", res.ID, res.ToolTrouble)
			}
			if res.Missing || res.Aborted {
				out.Violations = append(out.Violations, core.Violation{Key: "died", Oracle: "the simulation process survives", What: clip(res.Stderr, 1500), Seed: c.Seed, Scenario: replayScenario{"plain", scs[i]}})
				continue
			}
			for _, p := range sp.apply(res) {
				fails = append(fails, fail{scs[i], p, "plain"})
			}
			if res.Switches > 0 {
				distinct[res.SchedHash] = true
				probes["context_switch_inside_an_operation"]++
			}
			yields += res.Yields
			probes["preemption_point_at_a_synchronisation_operation"] += res.SyncPoints
			probes["preemption_at_a_synchronisation_operation"] += res.SyncYields
			switches += res.Switches
			fakeNS += res.FakeNS
			probes["multipart_part_spilled_to_temp_file"] += res.TempFiles
			for _, r := range res.Conc {
				calls++
				opCount[r.Call.Op]++
				if r.Call.Invalid != "" {
					probes["invalid_request"]++
				}
				if f := r.Call.Fault; f != nil {
					configured[f.Kind]++
					if r.FaultFired {
						fired[f.Kind]++
					}
				}
				for _, s := range r.Sides {
					if s.Delivered && s.HandlerCalls == 0 {
						probes["handler_not_reached"]++
					}
					if !s.Delivered {
						probes["head_damaged_before_ogen"]++
					}
				}
				if k := faultKind(r); k == "dup" {
					probes["duplicate_delivery"]++
				} else if k == "replay" {
					probes["replay_from_getbody"]++
				}
			}
		}
	}
	wg.Wait()
	if rerr != nil {
		return nil, rerr
	}
	wall = time.Since(t0)
	raceReports := 0
	for i := range raceRes {
		res := &raceRes[i]
		if res.ToolTrouble != "" {
			return nil, build.Toolf("scenario %s: %s", res.ID, res.ToolTrouble)
		}
		for _, rep := range res.Races {
			raceReports++
			out.Violations = append(out.Violations, core.Violation{
				Key: "race " + raceKey(rep), Oracle: "no data race between concurrent calls (race detector on the seeded schedule)",
				What: fmt.Sprintf("%s: %s", res.ID, clip(rep, 1800)), Seed: c.Seed,
				Scenario: replayScenario{"race", raceScs[i]}, Trace: map[string]any{"report": rep, "sched_hash": res.SchedHash},
			})
		}
		if res.Deadlock != "" && sp.id == "C19" && !res.Aborted {
			fails = append(fails, fail{raceScs[i], problem{"no task blocks forever (bubble deadlock)", clip(res.Deadlock, 1500), "deadlock"}, "race"})
		}
	}

	// group, minimise the first representative of each group
	sort.SliceStable(fails, func(i, j int) bool { return fails[i].p.Key < fails[j].p.Key })
	seen := map[string]int{}
	minimised := 0
	for _, f := range fails {
		seen[f.p.Key]++
		if seen[f.p.Key] > 1 {
			continue
		}
		sc := f.sc
		runs := 0
		hash := ""
		if minimised < 6 && f.bin == "plain" {
			minimised++
			sc, runs, hash = e.minimise(f.sc, sp, f.p.Key)
		}
		out.Violations = append(out.Violations, core.Violation{
			Key: f.p.Key, Oracle: f.p.Oracle,
			What: fmt.Sprintf("%s: %s (minimised to %d task(s), %d call(s) in %d runs)", f.sc.ID, clip(f.p.What, 900), len(sc.Tasks), countCalls(sc), runs),
			Seed: c.Seed, Scenario: replayScenario{f.bin, sc}, Trace: map[string]any{"original": f.sc.ID, "sched_hash": hash},
		})
	}

	var samples []any
	for i := 0; i < len(scs) && len(samples) < 3; i += max(1, len(scs)/3) {
		if si := sampleInfo[i]; si != nil {
			samples = append(samples, si)
		}
	}
	total := len(scs) + len(raceScs)
	out.Evidence = &evid.Evidence{
		Level: "exploration",
		Coverage: map[string]any{
			"evaluations":         total,
			"distinct_nontrivial": len(distinct),
			"rule": "seeded simulated runs: client tasks share one regenerated client and one regenerated server (world worlds/x/world.yml, regenerated with the tree's CLI) over simulated links inside a synctest bubble; the scenario fixes calls, values, chunk sizes, delays, faults, pool and map-order policy, GOMAXPROCS; " +
				"a run counts as distinct non-trivial when its merged (fake time, task) schedule log has at least one context switch and its hash is new",
			"samples":                         samples,
			"plain_runs":                      len(scs),
			"race_runs":                       len(raceScs),
			"race_reports":                    raceReports,
			"calls":                           calls,
			"calls_per_operation":             opCount,
			"oracle_failures":                 len(fails),
			"runs_per_hour":                   int(float64(total) / wall.Hours()),
			"seeds_per_hour":                  int(float64(total) / wall.Hours()),
			"simulated_time_s":                float64(fakeNS) / 1e9,
			"yields":                          yields,
			"context_switches":                switches,
			"fault_kinds_configured":          configured,
			"fault_kinds_fired":               fired,
			"probes":                          probes,
			"instrumentation_sites_runtime":   e.Rewrite.PerRule,
			"instrumentation_sites_generated": e.GenStats.PerRule,
			"real_components":                 []string{"the client and server packages regenerated from worlds/x/world.yml by cmd/ogen built from the working tree", "ogen runtime packages (http, uri, conv, json, validate, ogenerrors, ogenregex, middleware) from the instrumented scratch copy", "net/http's request writer, request parser and response parser", "mime/multipart, jx, regexp2", "the race detector (race build of the same seeded scenarios)"},
			"stubbed_components":              []string{"sockets and net/http's Server/Transport connection management -> SimTransport and simulated links", "crypto/rand.Reader -> seeded reader (multipart boundaries)", "sync.Pool and jx pools -> deterministic poisoning free lists", "goroutine scheduling at link, callback and pipe-writer points -> fake-clock time slicing", "OpenTelemetry: no-op providers"},
		},
		Assumptions: []string{
			"one fixed world (11 operations) regenerated in two feature configurations (a: defaults + ogen/unimplemented; b: client request validation, server response validation, request options, no OpenTelemetry): shapes outside it are not examined",
			"the typed echo handler, the expected-value model (defaults from the spec) and the canonical renderer in simsrc/xsim are trusted; each is cross-checked against the alone runs",
		},
	}
	return out, nil
}

func countCalls(sc Scenario) int {
	n := 0
	for _, t := range sc.Tasks {
		n += len(t)
	}
	return n
}

var frameRe = regexp.MustCompile(`(?m)^  ([^\s(]+)\(`)

func raceKey(rep string) string {
	var tops []string
	for _, blk := range strings.Split(rep, "\n\n") {
		if m := frameRe.FindStringSubmatch(blk); m != nil {
			tops = append(tops, m[1])
		}
		if len(tops) == 2 {
			break
		}
	}
	sort.Strings(tops)
	return strings.Join(tops, " vs ")
}

// minimise shrinks a failing scenario while a problem with the same key persists: drop tasks, drop calls,
// drop other calls' faults, trivial schedule, one big chunk.
func (e *Engine) minimise(sc Scenario, sp spec, key string) (Scenario, int, string) {
	runs := 0
	lastHash := "" // schedule hash of the last failing run, i.e. of the scenario that is returned
	fails := func(x Scenario) bool {
		runs++
		if runs > 60 {
			return false
		}
		rs, err := e.RunJob(e.Bin(x.World, false), []Scenario{x}, 5*time.Minute)
		if err != nil || len(rs) != 1 || rs[0].Missing {
			return false
		}
		for _, p := range sp.apply(&rs[0]) {
			if p.Key == key {
				lastHash = rs[0].SchedHash
				return true
			}
		}
		return false
	}
	clone := func(s Scenario) Scenario {
		c := s
		c.Tasks = make([][]Call, len(s.Tasks))
		for i := range s.Tasks {
			c.Tasks[i] = append([]Call(nil), s.Tasks[i]...)
		}
		return c
	}
	cur := clone(sc)
	// drop whole tasks
	for i := 0; i < len(cur.Tasks) && len(cur.Tasks) > 1; {
		x := clone(cur)
		x.Tasks = append(x.Tasks[:i], x.Tasks[i+1:]...)
		if fails(x) {
			cur = x
		} else {
			i++
		}
	}
	// drop calls
	for ti := 0; ti < len(cur.Tasks); ti++ {
		for oi := 0; oi < len(cur.Tasks[ti]) && len(cur.Tasks[ti]) > 1; {
			x := clone(cur)
			x.Tasks[ti] = append(x.Tasks[ti][:oi], x.Tasks[ti][oi+1:]...)
			if fails(x) {
				cur = x
			} else {
				oi++
			}
		}
	}
	// drop faults
	for ti := range cur.Tasks {
		for oi := range cur.Tasks[ti] {
			if cur.Tasks[ti][oi].Fault != nil {
				x := clone(cur)
				x.Tasks[ti][oi].Fault = nil
				if fails(x) {
					cur = x
				}
			}
		}
	}
	for _, mut := range []func(*Scenario){
		func(x *Scenario) { x.YieldP, x.MaxDelay = 0, 1 },
		func(x *Scenario) { x.MinChunk, x.MaxChunk = 1<<16, 1<<16 },
		func(x *Scenario) { x.PoolPolicy, x.Poison = 0, false },
		func(x *Scenario) { x.Procs = 1 },
		func(x *Scenario) { x.MapPolicy = 1 },
	} {
		x := clone(cur)
		mut(&x)
		if fails(x) {
			cur = x
		}
	}
	return cur, runs, lastHash
}

func (e *Engine) replay(c *core.Ctx, sp spec) (*core.Outcome, error) {
	var rs replayScenario
	if err := json.Unmarshal(c.Replay.Scenario, &rs); err != nil {
		return nil, build.Toolf("replay: %v", err)
	}
	bin := e.Bin(rs.Scenario.World, rs.Binary == "race")
	res, err := e.RunJob(bin, []Scenario{rs.Scenario}, 20*time.Minute)
	if err != nil {
		return nil, err
	}
	out := &core.Outcome{}
	fmt.Printf("replay: schedule hash %s\n", res[0].SchedHash)
	if os.Getenv("VERIF_REPLAY_DUMP") != "" {
		// development aid: everything that was recorded about the replayed run
		b, _ := json.MarshalIndent(res[0], "", " ")
		fmt.Println(string(b))
	}
	if tr, ok := c.Replay.Trace.(map[string]any); ok {
		if want, _ := tr["sched_hash"].(string); want != "" {
			fmt.Printf("replay: recorded schedule hash %s: realised schedule %s\n", want, map[bool]string{true: "reproduced exactly", false: "DIFFERS (tree changed, or a nondeterminism of the simulator)"}[want == res[0].SchedHash])
		}
	}
	for _, p := range sp.apply(&res[0]) {
		out.Violations = append(out.Violations, core.Violation{Key: p.Key, Oracle: p.Oracle, What: p.What, Seed: c.Seed, Scenario: rs})
	}
	for _, rep := range res[0].Races {
		out.Violations = append(out.Violations, core.Violation{Key: "race " + raceKey(rep), Oracle: "no data race", What: clip(rep, 1500), Seed: c.Seed, Scenario: rs})
	}
	return out, nil
}
