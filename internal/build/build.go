// Package build implements the build pipeline of DESIGN.md section 3.1: a scratch copy of /repo's
// current working tree outside /repo and /verif, a pinned environment for every go invocation,
// and removal of the scratch directory on exit.
package build

import (
	"bytes"
	"fmt"
	"os"
	"os/exec"
	"os/signal"
	"path/filepath"
	"strings"
	"sync"
	"syscall"
	"time"
)

// Repo is the tree under verification.
var Repo = envOr("VERIF_REPO", "/repo")

// VerifDir is the directory holding this framework.
var VerifDir = envOr("VERIF_DIR", "/verif")

func envOr(k, d string) string {
	if v := os.Getenv(k); v != "" {
		return v
	}
	return d
}

// ToolError marks build/tool/watchdog trouble: exit code 2, never a violation.
type ToolError struct{ Err error }

func (e *ToolError) Error() string { return "tool trouble: " + e.Err.Error() }
func (e *ToolError) Unwrap() error { return e.Err }

// Toolf makes a ToolError.
func Toolf(format string, a ...any) error { return &ToolError{fmt.Errorf(format, a...)} }

// Scratch is a private scratch directory.
type Scratch struct {
	Dir  string // root
	Src  string // copy of the repository (module github.com/ogen-go/ogen)
	Bin  string // built binaries
	Home string
	Tmp  string

	goEnv map[string]string
	once  sync.Once
}

var (
	cleanMu  sync.Mutex
	cleanups []func()
	sigOnce  sync.Once
)

func registerCleanup(f func()) {
	cleanMu.Lock()
	cleanups = append(cleanups, f)
	cleanMu.Unlock()
	sigOnce.Do(func() {
		ch := make(chan os.Signal, 2)
		signal.Notify(ch, syscall.SIGINT, syscall.SIGTERM, syscall.SIGHUP)
		go func() {
			<-ch
			RunCleanups()
			os.Exit(2)
		}()
	})
}

// RunCleanups removes every scratch directory created by this process.
func RunCleanups() {
	cleanMu.Lock()
	cs := cleanups
	cleanups = nil
	cleanMu.Unlock()
	for i := len(cs) - 1; i >= 0; i-- {
		cs[i]()
	}
}

// NewScratch creates ${VERIF_SCRATCH:-/var/tmp}/verif.<id>.<pid>.
func NewScratch(id string) (*Scratch, error) {
	base := envOr("VERIF_SCRATCH", "/var/tmp")
	dir := filepath.Join(base, fmt.Sprintf("verif.%s.%d", id, os.Getpid()))
	_ = os.RemoveAll(dir)
	s := &Scratch{
		Dir:  dir,
		Src:  filepath.Join(dir, "ogen"),
		Bin:  filepath.Join(dir, "bin"),
		Home: filepath.Join(dir, "home"),
		Tmp:  filepath.Join(dir, "tmp"),
	}
	for _, d := range []string{s.Dir, s.Bin, s.Home, s.Tmp} {
		if err := os.MkdirAll(d, 0o755); err != nil {
			return nil, Toolf("scratch: %w", err)
		}
	}
	registerCleanup(s.Remove)
	sweepStale(base)
	return s, nil
}

// sweepStale removes scratch directories of processes that no longer exist (a killed check).
func sweepStale(base string) {
	ents, err := os.ReadDir(base)
	if err != nil {
		return
	}
	for _, e := range ents {
		n := e.Name()
		if !strings.HasPrefix(n, "verif.") {
			continue
		}
		i := strings.LastIndexByte(n, '.')
		var pid int
		if _, err := fmt.Sscanf(n[i+1:], "%d", &pid); err != nil || pid <= 0 {
			continue
		}
		if pid == os.Getpid() {
			continue
		}
		if err := syscall.Kill(pid, 0); err == syscall.ESRCH {
			makeWritable(filepath.Join(base, n))
			_ = os.RemoveAll(filepath.Join(base, n))
		}
	}
}

func makeWritable(root string) {
	_ = filepath.Walk(root, func(p string, info os.FileInfo, err error) error {
		if err == nil && info.IsDir() && info.Mode().Perm()&0o700 != 0o700 {
			_ = os.Chmod(p, 0o755)
		}
		return nil
	})
}

// Remove deletes the scratch directory with everything in it.
func (s *Scratch) Remove() {
	s.once.Do(func() {
		if os.Getenv("VERIF_KEEP_SCRATCH") != "" {
			kept := filepath.Join(filepath.Dir(s.Dir), "keep."+filepath.Base(s.Dir))
			_ = os.RemoveAll(kept)
			_ = os.Rename(s.Dir, kept)
			fmt.Fprintln(os.Stderr, "keeping scratch", kept)
			return
		}
		makeWritable(s.Dir)
		_ = os.RemoveAll(s.Dir)
	})
}

// hostGoEnv reads the few go env values that must survive HOME being redirected.
func (s *Scratch) hostGoEnv() map[string]string {
	if s.goEnv != nil {
		return s.goEnv
	}
	m := map[string]string{}
	for _, k := range []string{"GOMODCACHE", "GOCACHE", "GOPATH"} {
		cmd := exec.Command("go", "env", k)
		cmd.Env = append(os.Environ(), "GOTOOLCHAIN=local", "GOFLAGS=-mod=mod")
		out, err := cmd.Output()
		if err == nil {
			m[k] = strings.TrimSpace(string(out))
		}
	}
	s.goEnv = m
	return m
}

// Env is the pinned environment for every go invocation and for the CLI children (N4).
func (s *Scratch) Env(extra ...string) []string {
	h := s.hostGoEnv()
	env := []string{
		"PATH=/usr/local/bin:/usr/bin:/bin",
		"HOME=" + s.Home,
		"TMPDIR=" + s.Tmp,
		"GOFLAGS=-mod=mod",
		"GOPROXY=off",
		"GOSUMDB=off",
		"GOTOOLCHAIN=local",
		"GONOSUMCHECK=1",
		"GONOSUMDB=*",
		"GOMODCACHE=" + h["GOMODCACHE"],
		"GOCACHE=" + h["GOCACHE"],
		"GOPATH=" + h["GOPATH"],
		"LANG=C",
		"CGO_ENABLED=" + envOr("VERIF_CGO", "1"),
	}
	return append(env, extra...)
}

// CopyRepo rsyncs the repository's working tree (not .git) into s.Src. excludes are rsync patterns.
func (s *Scratch) CopyRepo(excludes ...string) error {
	args := []string{"-a", "--delete", "--exclude", "/.git"}
	for _, e := range excludes {
		args = append(args, "--exclude", e)
	}
	args = append(args, Repo+"/", s.Src+"/")
	cmd := exec.Command("rsync", args...)
	if out, err := cmd.CombinedOutput(); err != nil {
		return Toolf("rsync: %v: %s", err, out)
	}
	fmt.Printf("scratch copy of %s taken\n", Repo)
	return nil
}

// Result of a child process.
type Result struct {
	Stdout, Stderr []byte
	Exit           int
	Err            error // start failure or signal
	Wall           time.Duration
}

// Run executes a command with the pinned environment.
func (s *Scratch) Run(dir string, timeout time.Duration, extraEnv []string, name string, args ...string) Result {
	cmd := exec.Command(name, args...)
	cmd.Dir = dir
	cmd.Env = s.Env(extraEnv...)
	var so, se bytes.Buffer
	cmd.Stdout, cmd.Stderr = &so, &se
	cmd.SysProcAttr = &syscall.SysProcAttr{Setpgid: true}
	t0 := time.Now()
	if err := cmd.Start(); err != nil {
		return Result{Err: err, Exit: -1}
	}
	done := make(chan error, 1)
	go func() { done <- cmd.Wait() }()
	var err error
	if timeout <= 0 {
		timeout = 30 * time.Minute
	}
	select {
	case err = <-done:
	case <-time.After(timeout):
		_ = syscall.Kill(-cmd.Process.Pid, syscall.SIGKILL)
		<-done
		return Result{Stdout: so.Bytes(), Stderr: se.Bytes(), Exit: -1, Err: fmt.Errorf("timeout after %v", timeout), Wall: time.Since(t0)}
	}
	r := Result{Stdout: so.Bytes(), Stderr: se.Bytes(), Wall: time.Since(t0)}
	if err != nil {
		if ee, ok := err.(*exec.ExitError); ok {
			r.Exit = ee.ExitCode()
			if r.Exit < 0 {
				r.Err = err
			}
		} else {
			r.Exit, r.Err = -1, err
		}
	}
	return r
}

// GoTool names a toolchain binary.
type GoTool string

const (
	GoDefault GoTool = "go"       // the toolchain the baseline uses
	GoSim     GoTool = "go1.26.8" // testing/synctest
)

// Go runs a go command in dir; a failure is tool trouble.
func (s *Scratch) Go(tool GoTool, dir string, args ...string) error {
	r := s.Run(dir, 25*time.Minute, nil, string(tool), args...)
	if r.Err != nil || r.Exit != 0 {
		return Toolf("%s %s (in %s): exit %d %v\n%s%s", tool, strings.Join(args, " "), dir, r.Exit, r.Err, tail(r.Stdout, 4000), tail(r.Stderr, 8000))
	}
	return nil
}

func tail(b []byte, n int) string {
	if len(b) > n {
		return "..." + string(b[len(b)-n:])
	}
	return string(b)
}

// BuildCLI builds a main package of the scratch copy with the default toolchain.
func (s *Scratch) BuildCLI(pkg, out string, tags string) error {
	args := []string{"build", "-trimpath"}
	if tags != "" {
		args = append(args, "-tags", tags)
	}
	args = append(args, "-o", filepath.Join(s.Bin, out), pkg)
	return s.Go(GoDefault, s.Src, args...)
}

// TreeID describes the tree the check ran on: HEAD and a hash of the dirty diff.
func TreeID() string {
	head, _ := exec.Command("git", "-C", Repo, "rev-parse", "--short", "HEAD").Output()
	diff, _ := exec.Command("git", "-C", Repo, "status", "--porcelain").Output()
	d := "clean"
	if len(bytes.TrimSpace(diff)) > 0 {
		d = fmt.Sprintf("dirty(%d paths)", bytes.Count(bytes.TrimSpace(diff), []byte("\n"))+1)
	}
	return strings.TrimSpace(string(head)) + " " + d
}
