// Package evid writes /verif/evidence/<id>.json (EVIDENCE.schema.json), replay files, and reads the
// committed known-findings file.
package evid

import (
	"bufio"
	"crypto/sha256"
	"encoding/hex"
	"encoding/json"
	"fmt"
	"os"
	"path/filepath"
	"strings"
	"time"

	"verif/internal/build"
)

// Evidence mirrors the schema; Coverage carries the generic keys plus extras.
type Evidence struct {
	PropertyID  string         `json:"property_id"`
	Tier        string         `json:"tier"`
	Seed        int64          `json:"seed"`
	Level       string         `json:"level"`
	Coverage    map[string]any `json:"coverage"`
	Assumptions []string       `json:"assumptions,omitempty"`
	WallS       float64        `json:"wall_s"`
	Violations  int            `json:"violations"`
}

// Write stores the evidence file.
func (e *Evidence) Write() error {
	dir := filepath.Join(build.VerifDir, "evidence")
	if err := os.MkdirAll(dir, 0o755); err != nil {
		return err
	}
	b, err := json.MarshalIndent(e, "", " ")
	if err != nil {
		return err
	}
	name := e.PropertyID + ".json"
	if build.Repo != "/repo" {
		// a run against another tree (VERIF_REPO: a seeded change in a scratch worktree) must not replace the
		// evidence of the tree under verification
		name = e.PropertyID + ".other-tree.json"
	}
	return os.WriteFile(filepath.Join(dir, name), append(b, '\n'), 0o644)
}

// Replay is the common envelope of a replay file.
type Replay struct {
	Property string          `json:"property"`
	Tier     string          `json:"tier"`
	Seed     int64           `json:"seed"`
	Tree     string          `json:"tree"`
	Oracle   string          `json:"oracle"`
	What     string          `json:"what"`
	Key      string          `json:"key"` // stable identity of the violation, matched against known findings
	Scenario json.RawMessage `json:"scenario"`
	Trace    any             `json:"trace,omitempty"`
	Created  string          `json:"created"`
}

// WriteReplay stores a replay file and returns its path.
func WriteReplay(r *Replay) (string, error) {
	dir := filepath.Join(build.VerifDir, "replays")
	if err := os.MkdirAll(dir, 0o755); err != nil {
		return "", err
	}
	r.Created = time.Now().UTC().Format(time.RFC3339)
	if r.Tree == "" {
		r.Tree = build.TreeID()
	}
	b, err := json.MarshalIndent(r, "", " ")
	if err != nil {
		return "", err
	}
	h := sha256.Sum256(append([]byte(r.Key+"\x00"), r.Scenario...))
	p := filepath.Join(dir, fmt.Sprintf("%s-%d-%s.json", r.Property, r.Seed, hex.EncodeToString(h[:5])))
	return p, os.WriteFile(p, append(b, '\n'), 0o644)
}

// ReadReplay loads a replay file.
func ReadReplay(path string) (*Replay, error) {
	b, err := os.ReadFile(path)
	if err != nil {
		return nil, err
	}
	var r Replay
	if err := json.Unmarshal(b, &r); err != nil {
		return nil, err
	}
	return &r, nil
}

// Finding is one line of known-findings.txt.
type Finding struct {
	Kind     string // finding | fixed
	Property string
	Matcher  string // substring that must occur in the violation key (finding lines only)
	Text     string
}

// LoadFindings reads /verif/known-findings.txt. Lines:
//
//	finding: property=<id> match=<substring of violation key> <what fails>
//	fixed: property=<id> <commit> <what failed>
func LoadFindings() ([]Finding, error) {
	f, err := os.Open(filepath.Join(build.VerifDir, "known-findings.txt"))
	if os.IsNotExist(err) {
		return nil, nil
	}
	if err != nil {
		return nil, err
	}
	defer f.Close()
	var out []Finding
	sc := bufio.NewScanner(f)
	for sc.Scan() {
		line := strings.TrimSpace(sc.Text())
		if line == "" || strings.HasPrefix(line, "#") {
			continue
		}
		kind, rest, ok := strings.Cut(line, ":")
		if !ok {
			return nil, fmt.Errorf("known-findings: bad line %q", line)
		}
		fd := Finding{Kind: strings.TrimSpace(kind)}
		fields := strings.Fields(rest)
		var text []string
		for _, w := range fields {
			switch {
			case strings.HasPrefix(w, "property=") && fd.Property == "":
				fd.Property = strings.TrimPrefix(w, "property=")
			case strings.HasPrefix(w, "match=") && fd.Matcher == "":
				fd.Matcher = strings.TrimPrefix(w, "match=")
			default:
				text = append(text, w)
			}
		}
		fd.Text = strings.Join(text, " ")
		if fd.Kind != "finding" && fd.Kind != "fixed" {
			return nil, fmt.Errorf("known-findings: bad kind in %q", line)
		}
		if fd.Kind == "finding" && (fd.Property == "" || fd.Matcher == "") {
			return nil, fmt.Errorf("known-findings: finding needs property= and match= in %q", line)
		}
		out = append(out, fd)
	}
	return out, sc.Err()
}

// Known reports the finding a violation key matches, if any. fixed: lines suppress nothing.
func Known(fs []Finding, property, key string) *Finding {
	for i := range fs {
		f := &fs[i]
		if f.Kind == "finding" && f.Property == property && strings.Contains(key, f.Matcher) {
			return f
		}
	}
	return nil
}
