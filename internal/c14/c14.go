// Package c14 decides C14: every go:generate directive of internal/integration/generate.go and
// examples/generate.go, executed with the CLI built from the current tree in a scratch mirror of the
// repository, is a byte-for-byte fixpoint of the checked-in files (DESIGN.md section 4, C14).
package c14

import (
	"bufio"
	"fmt"
	"math/rand"
	"os"
	"path/filepath"
	"runtime"
	"sort"
	"strings"
	"sync"
	"time"

	"verif/internal/build"
	"verif/internal/core"
	"verif/internal/evid"
	"verif/internal/snap"
)

// Directive is one //go:generate line.
type Directive struct {
	File    string   `json:"file"` // path of generate.go relative to the repository
	Line    int      `json:"line"`
	Package string   `json:"package"` // GOPACKAGE
	Tool    string   `json:"tool"`    // ogen | jschemagen | mkformattest
	Args    []string `json:"args"`
	Target  string   `json:"target"` // relative to the directory of File
	Input   string   `json:"input"`  // spec, relative to the directory of File
	Skip    string   `json:"skip,omitempty"`
}

func (d Directive) ID() string { return fmt.Sprintf("%s:%d", d.File, d.Line) }

var generateFiles = []string{"internal/integration/generate.go", "examples/generate.go"}

var tools = map[string]string{
	"../../cmd/ogen":                             "ogen",
	"github.com/ogen-go/ogen/cmd/ogen":           "ogen",
	"github.com/ogen-go/ogen/cmd/jschemagen":     "jschemagen",
	"github.com/ogen-go/ogen/tools/mkformattest": "mkformattest",
}

var toolPkgs = map[string]string{
	"ogen":         "./cmd/ogen",
	"jschemagen":   "./cmd/jschemagen",
	"mkformattest": "./tools/mkformattest",
}

// ParseDirectives reads the go:generate lines of one file. A line it cannot interpret is tool trouble.
func ParseDirectives(root, rel string) ([]Directive, error) {
	f, err := os.Open(filepath.Join(root, rel))
	if err != nil {
		return nil, build.Toolf("directives: %w", err)
	}
	defer f.Close()
	var out []Directive
	pkg := ""
	sc := bufio.NewScanner(f)
	sc.Buffer(make([]byte, 1<<20), 1<<20)
	n := 0
	for sc.Scan() {
		n++
		line := sc.Text()
		if pkg == "" && strings.HasPrefix(line, "package ") {
			pkg = strings.Fields(line)[1]
		}
		if !strings.HasPrefix(line, "//go:generate ") {
			continue
		}
		if strings.ContainsAny(line, "\"'`$") {
			return nil, build.Toolf("%s:%d: directive uses quoting or variables, not interpreted: %s", rel, n, line)
		}
		w := strings.Fields(strings.TrimPrefix(line, "//go:generate "))
		if len(w) < 3 || w[0] != "go" || w[1] != "run" {
			return nil, build.Toolf("%s:%d: not a `go run` directive: %s", rel, n, line)
		}
		tool, ok := tools[w[2]]
		if !ok {
			return nil, build.Toolf("%s:%d: unknown generator %q", rel, n, w[2])
		}
		d := Directive{File: rel, Line: n, Tool: tool, Args: w[3:]}
		for i := 0; i < len(d.Args); i++ {
			a := d.Args[i]
			switch {
			case a == "--target" || a == "-target" || a == "--output" || a == "-output":
				if i+1 < len(d.Args) {
					d.Target = d.Args[i+1]
					i++
				}
			case a == "--config" || a == "-config" || a == "--package" || a == "-package" || a == "--typename" || a == "-typename":
				i++
			case strings.HasPrefix(a, "-"):
			default:
				d.Input = a
			}
		}
		if d.Target == "" {
			return nil, build.Toolf("%s:%d: no target in directive", rel, n)
		}
		out = append(out, d)
	}
	for i := range out {
		out[i].Package = pkg
	}
	return out, sc.Err()
}

type runResult struct {
	D        Directive
	Procs    int
	Exit     int
	Err      string
	Stderr   string
	Wall     float64
	Written  int // files of the target rewritten (mtime/inode changed)
	Changes  []snap.Change
	Repeated int
}

// Run is the check.
func Run(c *core.Ctx) (*core.Outcome, error) {
	s, err := build.NewScratch(c.ID)
	if err != nil {
		return nil, err
	}
	defer s.Remove()
	if err := s.CopyRepo(); err != nil {
		return nil, err
	}
	var dirs []Directive
	for _, gf := range generateFiles {
		ds, err := ParseDirectives(s.Src, gf)
		if err != nil {
			return nil, err
		}
		dirs = append(dirs, ds...)
	}
	if c.Replay != nil {
		var want Directive
		if err := jsonUnmarshal(c.Replay.Scenario, &want); err != nil {
			return nil, build.Toolf("replay: %v", err)
		}
		var sel []Directive
		for _, d := range dirs {
			if d.ID() == want.ID() || (d.Tool == "mkformattest") {
				sel = append(sel, d)
			}
		}
		dirs = sel
	}
	needed := map[string]bool{}
	for i := range dirs {
		d := &dirs[i]
		if d.Input != "" {
			p := filepath.Join(s.Src, filepath.Dir(d.File), d.Input)
			if fi, err := os.Stat(p); err != nil {
				d.Skip = "input missing: " + d.Input
			} else if fi.Size() == 0 {
				d.Skip = "input emptied in this sandbox: " + d.Input
			}
		}
		if d.Skip == "" {
			needed[d.Tool] = true
		}
	}
	for tool := range needed {
		if err := s.BuildCLI(toolPkgs[tool], tool, ""); err != nil {
			return nil, err
		}
	}

	before, err := snap.Take(s.Src)
	if err != nil {
		return nil, build.Toolf("snapshot: %v", err)
	}

	rng := rand.New(rand.NewSource(c.Seed))
	procsChoices := []int{1, 2, 3, 4, 8, 16}
	repeats := 1
	if c.Tier == "thorough" {
		repeats = 4
	}

	// mkformattest produces an input of a later directive: it runs first, alone, as `go generate` would.
	var first, rest []Directive
	for _, d := range dirs {
		if d.Skip != "" {
			continue
		}
		if d.Tool == "mkformattest" {
			first = append(first, d)
		} else {
			rest = append(rest, d)
		}
	}
	var results []runResult
	var mu sync.Mutex
	runOne := func(d Directive, procs, rep int) {
		r := execDirective(s, d, procs)
		r.Repeated = rep
		mu.Lock()
		results = append(results, r)
		mu.Unlock()
	}
	for _, d := range first {
		runOne(d, procsChoices[rng.Intn(len(procsChoices))], 0)
	}
	for rep := 0; rep < repeats; rep++ {
		type job struct {
			d     Directive
			procs int
		}
		var jobs []job
		for _, d := range rest {
			jobs = append(jobs, job{d, procsChoices[rng.Intn(len(procsChoices))]})
		}
		// large specs first
		sort.SliceStable(jobs, func(i, j int) bool { return inputSize(s, jobs[i].d) > inputSize(s, jobs[j].d) })
		sem := make(chan struct{}, max(2, runtime.NumCPU()/2))
		var wg sync.WaitGroup
		for _, j := range jobs {
			wg.Add(1)
			sem <- struct{}{}
			go func(j job) {
				defer wg.Done()
				defer func() { <-sem }()
				runOne(j.d, j.procs, rep)
			}(j)
		}
		wg.Wait()
	}

	after, err := snap.Take(s.Src)
	if err != nil {
		return nil, build.Toolf("snapshot: %v", err)
	}
	content := snap.Diff(before, after, false)
	touched := snap.Diff(before, after, true)

	out := &core.Outcome{}
	// attribute changes to directives by target prefix
	attr := func(p string) (Directive, bool) {
		for _, d := range dirs {
			t := filepath.ToSlash(filepath.Join(filepath.Dir(d.File), d.Target))
			if p == t || strings.HasPrefix(p, t+"/") {
				return d, true
			}
		}
		return Directive{}, false
	}
	byDir := map[string][]snap.Change{}
	for _, ch := range content {
		if d, ok := attr(ch.Path); ok {
			byDir[d.ID()] = append(byDir[d.ID()], ch)
		} else {
			byDir["outside"] = append(byDir["outside"], ch)
		}
	}
	written := map[string]int{}
	for _, ch := range touched {
		if d, ok := attr(ch.Path); ok {
			written[d.ID()]++
		}
	}
	sort.Slice(results, func(i, j int) bool {
		if results[i].D.ID() != results[j].D.ID() {
			return results[i].D.ID() < results[j].D.ID()
		}
		return results[i].Repeated < results[j].Repeated
	})
	failed := map[string]bool{}
	for _, r := range results {
		if r.Exit != 0 || r.Err != "" {
			if failed[r.D.ID()] {
				continue
			}
			failed[r.D.ID()] = true
			if isToolTrouble(r) {
				return nil, build.Toolf("directive %s could not run: %s %s", r.D.ID(), r.Err, r.Stderr)
			}
			out.Violations = append(out.Violations, core.Violation{
				Key:    "regeneration-fails " + r.D.Target,
				Oracle: "regeneration of a checked-in package succeeds",
				What:   fmt.Sprintf("%s (%s %s) exits %d: %s", r.D.ID(), r.D.Tool, strings.Join(r.D.Args, " "), r.Exit, lastLines(r.Stderr, 6)),
				Seed:   c.Seed, Scenario: r.D, Trace: map[string]any{"gomaxprocs": r.Procs},
			})
		}
	}
	for _, d := range dirs {
		chs := byDir[d.ID()]
		if len(chs) == 0 || failed[d.ID()] {
			continue
		}
		det := describe(s, chs[0])
		out.Violations = append(out.Violations, core.Violation{
			Key:    "stale " + d.Target + " " + pathsKey(chs),
			Oracle: "checked-in files == regenerated files (byte for byte, same file set)",
			What:   fmt.Sprintf("%s: regenerating %s changes %d file(s): %s; first difference: %s", d.ID(), d.Target, len(chs), snap.Summary(chs, 6), det),
			Seed:   c.Seed, Scenario: d, Trace: map[string]any{"changes": chs},
		})
	}
	if chs := byDir["outside"]; len(chs) > 0 {
		out.Violations = append(out.Violations, core.Violation{
			Key:    "outside-target " + pathsKey(chs),
			Oracle: "a directive touches nothing but its target",
			What:   "files outside every directive's target changed: " + snap.Summary(chs, 8),
			Seed:   c.Seed, Scenario: map[string]any{"changes": chs},
		})
	}

	// the simulator's contribution (thorough tier): in-process regeneration under seeded hidden inputs
	var inproc map[string]any
	if c.Tier == "thorough" && c.Replay == nil {
		vs, info, err := inProcess(c, dirs)
		if err != nil {
			return nil, err
		}
		out.Violations = append(out.Violations, vs...)
		inproc = info
	}

	// evidence
	var skipped []map[string]string
	for _, d := range dirs {
		if d.Skip != "" {
			skipped = append(skipped, map[string]string{"directive": d.ID(), "target": d.Target, "reason": d.Skip})
		}
	}
	nontrivial := 0
	var samples []any
	procsSeen := map[int]int{}
	for _, r := range results {
		procsSeen[r.Procs]++
	}
	seenD := map[string]bool{}
	var totalWall float64
	for _, r := range results {
		totalWall += r.Wall
		if seenD[r.D.ID()] {
			continue
		}
		seenD[r.D.ID()] = true
		if r.Exit == 0 && written[r.D.ID()] > 0 {
			nontrivial++
		}
		if len(samples) < 4 || len(byDir[r.D.ID()]) > 0 {
			samples = append(samples, map[string]any{
				"directive": r.D.ID(), "tool": r.D.Tool, "args": strings.Join(r.D.Args, " "), "cwd": filepath.Dir(r.D.File),
				"env": goGenerateEnv(r.D), "gomaxprocs": r.Procs, "exit": r.Exit, "files_rewritten": written[r.D.ID()],
				"files_changed": len(byDir[r.D.ID()]), "wall_s": r.Wall,
			})
		}
	}
	out.Evidence = &evid.Evidence{
		Level: "exploration",
		Coverage: map[string]any{
			"evaluations":         len(results),
			"distinct_nontrivial": nontrivial,
			"rule": "every //go:generate directive of internal/integration/generate.go and examples/generate.go whose input is present is executed (tool built from the current tree, cwd and environment as `go generate` sets them, --clean as written, GOMAXPROCS seeded per run) on a scratch mirror of the working tree; " +
				"a directive counts as distinct non-trivial when it exited 0 and rewrote at least one file of its target (mtime/inode changed), so the comparison was against bytes produced in this run",
			"samples":              samples,
			"exhaustive":           true,
			"directives_total":     len(dirs),
			"directives_run":       len(seenD),
			"directives_skipped":   skipped,
			"runs_per_directive":   repeats,
			"gomaxprocs_histogram": procsSeen,
			"files_compared":       countFiles(after, dirs),
			"child_wall_s_total":   round1(totalWall),
			"runs_per_hour":        perHour(len(results), time.Since(c.Start)),
			"fault_kinds_injected": map[string]int{},
			"in_process_seeded":    inproc,
			"real_components":      []string{"cmd/ogen, cmd/jschemagen, tools/mkformattest built from the working tree (default toolchain, GOTOOLCHAIN=local)", "the generator, parser, templates, x/tools/imports and its `go env` child", "the real file system (scratch mirror)"},
			"stubbed_components":   []string{"`go generate`/`go run` themselves: the directive is parsed by this check and the pre-built binary is executed with the environment go generate documents"},
		},
		Assumptions: []string{
			"the directive parser (whitespace-split `go run <pkg> args`, no quoting; anything else is exit 2)",
			"a directive whose input spec is empty in this sandbox is listed as skipped, not checked",
			"map order and goroutine timing inside each child are whatever the run got (the seeded in-process variant is C10's instrumented generator)",
		},
	}
	return out, nil
}

func execDirective(s *build.Scratch, d Directive, procs int) runResult {
	cwd := filepath.Join(s.Src, filepath.Dir(d.File))
	env := append(goGenerateEnvList(d), fmt.Sprintf("GOMAXPROCS=%d", procs))
	r := s.Run(cwd, 20*time.Minute, env, filepath.Join(s.Bin, d.Tool), d.Args...)
	rr := runResult{D: d, Procs: procs, Exit: r.Exit, Wall: round1(r.Wall.Seconds()), Stderr: string(r.Stderr)}
	if r.Err != nil {
		rr.Err = r.Err.Error()
	}
	return rr
}

func goGenerateEnv(d Directive) map[string]string {
	return map[string]string{
		"GOPACKAGE": d.Package, "GOFILE": filepath.Base(d.File), "GOLINE": fmt.Sprint(d.Line),
		"GOOS": runtime.GOOS, "GOARCH": runtime.GOARCH, "DOLLAR": "$",
	}
}

func goGenerateEnvList(d Directive) []string {
	var out []string
	for k, v := range goGenerateEnv(d) {
		out = append(out, k+"="+v)
	}
	sort.Strings(out)
	return out
}

// isToolTrouble: the external `go` child of imports.Process could not be started (host trouble, N4).
func isToolTrouble(r runResult) bool {
	if strings.Contains(r.Err, "timeout") {
		return true
	}
	for _, s := range []string{"fork/exec", "resource temporarily unavailable", "cannot allocate memory", "too many open files"} {
		if strings.Contains(r.Stderr, s) {
			return true
		}
	}
	return false
}

func inputSize(s *build.Scratch, d Directive) int64 {
	fi, err := os.Stat(filepath.Join(s.Src, filepath.Dir(d.File), d.Input))
	if err != nil {
		return 0
	}
	return fi.Size()
}

func countFiles(t snap.Tree, dirs []Directive) int {
	n := 0
	for p, e := range t {
		if e.Type != "file" {
			continue
		}
		for _, d := range dirs {
			if d.Skip != "" {
				continue
			}
			tp := filepath.ToSlash(filepath.Join(filepath.Dir(d.File), d.Target))
			if p == tp || strings.HasPrefix(p, tp+"/") {
				n++
				break
			}
		}
	}
	return n
}

func pathsKey(chs []snap.Change) string {
	var ps []string
	for i, c := range chs {
		if i == 3 {
			ps = append(ps, "…")
			break
		}
		ps = append(ps, c.Kind+":"+filepath.Base(c.Path))
	}
	return strings.Join(ps, ",")
}

// describe shows the first differing line of a modified file.
func describe(s *build.Scratch, ch snap.Change) string {
	if ch.Kind != "modified" {
		return ch.String()
	}
	a, err1 := os.ReadFile(filepath.Join(build.Repo, ch.Path))
	b, err2 := os.ReadFile(filepath.Join(s.Src, ch.Path))
	if err1 != nil || err2 != nil {
		return ch.String()
	}
	la, lb := strings.Split(string(a), "\n"), strings.Split(string(b), "\n")
	for i := 0; i < len(la) && i < len(lb); i++ {
		if la[i] != lb[i] {
			return fmt.Sprintf("%s:%d checked-in %q regenerated %q", ch.Path, i+1, clip(la[i]), clip(lb[i]))
		}
	}
	return fmt.Sprintf("%s: lengths differ (%d vs %d lines)", ch.Path, len(la), len(lb))
}

func clip(s string) string {
	if len(s) > 160 {
		return s[:160] + "…"
	}
	return s
}

func lastLines(s string, n int) string {
	ls := strings.Split(strings.TrimSpace(s), "\n")
	if len(ls) > n {
		ls = ls[len(ls)-n:]
	}
	return strings.Join(ls, " | ")
}

func round1(f float64) float64 { return float64(int(f*10+0.5)) / 10 }

func perHour(n int, d time.Duration) int {
	if d <= 0 {
		return 0
	}
	return int(float64(n) / d.Hours())
}
