package c14

import (
	"crypto/sha256"
	"encoding/hex"
	"fmt"
	"math/rand"
	"os"
	"path/filepath"
	"sort"
	"strings"

	"verif/internal/build"
	"verif/internal/c10"
	"verif/internal/core"
)

// inProcess is the simulator's contribution to C14 (thorough tier): every ogen directive is also
// regenerated in-process by the instrumented generator under seeded map orders, template schedules,
// GOMAXPROCS, pool policies and in-process histories, and every such run must equal the checked-in bytes.
func inProcess(c *core.Ctx, dirs []Directive) ([]core.Violation, map[string]any, error) {
	e, err := c10.NewEngine(c.ID+"i", false)
	if err != nil {
		return nil, nil, err
	}
	defer e.S.Remove()
	rng := rand.New(rand.NewSource(c.Seed))
	type item struct {
		d    Directive
		in   c10.Input
		want map[string]string
	}
	var items []item
	for _, d := range dirs {
		if d.Tool != "ogen" || d.Skip != "" {
			continue
		}
		in := c10.GenInput{Spec: d.Input, Dir: filepath.Join(e.S.Src, filepath.Dir(d.File)), Package: "api"}
		if err := os.MkdirAll(in.Dir, 0o755); err != nil {
			return nil, nil, build.Toolf("%v", err)
		}
		for i := 0; i < len(d.Args); i++ {
			switch d.Args[i] {
			case "--config", "-config":
				b, err := os.ReadFile(filepath.Join(build.Repo, filepath.Dir(d.File), d.Args[i+1]))
				if err != nil {
					return nil, nil, build.Toolf("config of %s: %v", d.ID(), err)
				}
				in.Config = string(b)
			case "--package", "-package":
				in.Package = d.Args[i+1]
			}
		}
		want := map[string]string{}
		tdir := filepath.Join(build.Repo, filepath.Dir(d.File), d.Target)
		ents, err := os.ReadDir(tdir)
		if err != nil {
			return nil, nil, build.Toolf("target of %s: %v", d.ID(), err)
		}
		for _, en := range ents {
			n := en.Name()
			if en.IsDir() || !(strings.HasPrefix(n, "oas") || strings.HasPrefix(n, "openapi")) || !(strings.HasSuffix(n, "_gen.go") || strings.HasSuffix(n, "_gen_test.go")) {
				continue
			}
			b, err := os.ReadFile(filepath.Join(tdir, n))
			if err != nil {
				return nil, nil, build.Toolf("%v", err)
			}
			h := sha256.Sum256(b)
			want[n] = hex.EncodeToString(h[:12])
		}
		fi, _ := os.Stat(filepath.Join(in.Dir, d.Input))
		big := fi != nil && fi.Size() > 600_000
		items = append(items, item{d, c10.Input{Name: d.ID() + " " + d.Target, In: in, Big: big, Class: "directive"}, want})
	}
	var all []c10.Input
	for _, it := range items {
		all = append(all, it.in)
	}
	var scs []c10.Scenario
	var owner []int
	for i, it := range items {
		n := 8
		if it.in.Big {
			n = 2
		}
		for k := 0; k < n; k++ {
			sc := e.Sample(rng, it.in, all, k, k%4 != 3)
			sc.FSFailFile, sc.FSStallFile = "", ""
			sc.Stats = false
			scs = append(scs, sc)
			owner = append(owner, i)
		}
	}
	res, err := e.RunAll(e.Plain, scs, 6, c.Jobs)
	if err != nil {
		return nil, nil, err
	}
	var vs []core.Violation
	seen := map[string]bool{}
	for i, r := range res {
		it := items[owner[i]]
		if r.ToolTrouble != "" {
			return nil, nil, build.Toolf("%s: %s", scs[i].ID, r.ToolTrouble)
		}
		var diff []string
		if r.Missing || r.Panic != "" || r.Err != "" {
			diff = []string{"generation failed: " + r.Err + r.Panic}
		} else {
			for n, h := range it.want {
				if g, ok := r.Files[n]; !ok {
					diff = append(diff, "missing:"+n)
				} else if g != h {
					diff = append(diff, "differs:"+n)
				}
			}
			for n := range r.Files {
				if _, ok := it.want[n]; !ok {
					diff = append(diff, "extra:"+n)
				}
			}
		}
		if len(diff) == 0 {
			continue
		}
		sort.Strings(diff)
		key := "stale-in-process " + it.d.Target + " " + strings.Join(diff[:min(3, len(diff))], ",")
		if seen[key] {
			continue
		}
		seen[key] = true
		vs = append(vs, core.Violation{
			Key: key, Oracle: "checked-in files == files regenerated in-process under a seeded map order / schedule",
			What: fmt.Sprintf("%s: %s", scs[i].ID, strings.Join(diff[:min(8, len(diff))], ", ")),
			Seed: c.Seed, Scenario: it.d, Trace: map[string]any{"scenario": scs[i]},
		})
	}
	info := map[string]any{"in_process_runs": len(scs), "in_process_directives": len(items), "instrumentation_sites": e.Rewrite.PerRule}
	return vs, info, nil
}
