package snap

import (
	"os"
	"syscall"
)

func inode(fi os.FileInfo) uint64 {
	if st, ok := fi.Sys().(*syscall.Stat_t); ok {
		return st.Ino
	}
	return 0
}
