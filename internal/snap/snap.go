// Package snap takes recursive snapshots of directory trees (names, types, modes, sizes, SHA-256,
// symlink targets; mtimes only to detect rewrite-in-place) and diffs them. It never follows symlinks.
package snap

import (
	"crypto/sha256"
	"encoding/hex"
	"fmt"
	"io"
	"os"
	"path/filepath"
	"sort"
	"strings"
)

// Entry is one file-system object.
type Entry struct {
	Type  string `json:"type"` // file dir symlink other
	Mode  uint32 `json:"mode"`
	Size  int64  `json:"size,omitempty"`
	Hash  string `json:"hash,omitempty"`
	Link  string `json:"link,omitempty"`
	MTime int64  `json:"-"`
	Ino   uint64 `json:"-"`
}

// Tree maps slash-separated paths relative to the root ("." is the root itself) to entries.
// A missing root is the empty tree.
type Tree map[string]Entry

// Take snapshots root.
func Take(root string) (Tree, error) {
	t := Tree{}
	_, err := os.Lstat(root)
	if os.IsNotExist(err) {
		return t, nil
	}
	if err != nil {
		// e.g. ENOTDIR when a parent is a file: also "does not exist" for our purposes.
		return t, nil
	}
	err = walk(root, ".", t)
	return t, err
}

func walk(abs, rel string, t Tree) error {
	fi, err := os.Lstat(abs)
	if err != nil {
		return err
	}
	e := Entry{Mode: uint32(fi.Mode().Perm()), MTime: fi.ModTime().UnixNano(), Ino: inode(fi)}
	switch {
	case fi.Mode()&os.ModeSymlink != 0:
		e.Type = "symlink"
		e.Link, _ = os.Readlink(abs)
	case fi.IsDir():
		e.Type = "dir"
	case fi.Mode().IsRegular():
		e.Type = "file"
		e.Size = fi.Size()
		h, err := hashFile(abs)
		if err != nil {
			e.Hash = "unreadable:" + err.Error()
		} else {
			e.Hash = h
		}
	default:
		e.Type = "other"
	}
	t[rel] = e
	if e.Type != "dir" {
		return nil
	}
	ents, err := os.ReadDir(abs)
	if err != nil {
		// unreadable directory: record and go on
		e.Hash = "unreadable:" + err.Error()
		t[rel] = e
		return nil
	}
	for _, c := range ents {
		r := c.Name()
		if rel != "." {
			r = rel + "/" + c.Name()
		}
		if err := walk(filepath.Join(abs, c.Name()), r, t); err != nil {
			return err
		}
	}
	return nil
}

func hashFile(p string) (string, error) {
	f, err := os.Open(p)
	if err != nil {
		return "", err
	}
	defer f.Close()
	h := sha256.New()
	if _, err := io.Copy(h, f); err != nil {
		return "", err
	}
	return hex.EncodeToString(h.Sum(nil))[:24], nil
}

// Change is one difference between two trees.
type Change struct {
	Path   string `json:"path"`
	Kind   string `json:"kind"` // created removed modified retyped chmod rewritten
	Before *Entry `json:"before,omitempty"`
	After  *Entry `json:"after,omitempty"`
}

func (c Change) String() string { return c.Kind + " " + c.Path }

// Diff lists differences in content, type, mode and link target. With mtimes set it also reports
// files whose bytes are unchanged but which were rewritten in place ("rewritten").
func Diff(a, b Tree, mtimes bool) []Change {
	var out []Change
	for p, ea := range a {
		ea := ea
		eb, ok := b[p]
		if !ok {
			out = append(out, Change{Path: p, Kind: "removed", Before: &ea})
			continue
		}
		switch {
		case ea.Type != eb.Type:
			out = append(out, Change{Path: p, Kind: "retyped", Before: &ea, After: &eb})
		case ea.Hash != eb.Hash || ea.Link != eb.Link || ea.Size != eb.Size:
			out = append(out, Change{Path: p, Kind: "modified", Before: &ea, After: &eb})
		case ea.Mode != eb.Mode:
			out = append(out, Change{Path: p, Kind: "chmod", Before: &ea, After: &eb})
		case mtimes && ea.Type == "file" && (ea.MTime != eb.MTime || ea.Ino != eb.Ino):
			out = append(out, Change{Path: p, Kind: "rewritten", Before: &ea, After: &eb})
		}
	}
	for p, eb := range b {
		eb := eb
		if _, ok := a[p]; !ok {
			out = append(out, Change{Path: p, Kind: "created", After: &eb})
		}
	}
	sort.Slice(out, func(i, j int) bool { return out[i].Path < out[j].Path })
	return out
}

// Summary renders up to n changes.
func Summary(cs []Change, n int) string {
	var sb strings.Builder
	for i, c := range cs {
		if i == n {
			fmt.Fprintf(&sb, " … +%d more", len(cs)-n)
			break
		}
		if i > 0 {
			sb.WriteString("; ")
		}
		sb.WriteString(c.String())
	}
	return sb.String()
}

// Paths returns sorted paths.
func (t Tree) Paths() []string {
	ps := make([]string, 0, len(t))
	for p := range t {
		ps = append(ps, p)
	}
	sort.Strings(ps)
	return ps
}
