// Package c10 decides C10 (and the in-process half of C14): the instrumented generator is run under
// seeded map orders, template-goroutine schedules, pool policies, GOMAXPROCS, in-process histories and
// file-system faults; every run must produce the reference bytes, and the race build of the same runs
// must produce no race report (DESIGN.md section 4, C10).
package c10

import (
	"bufio"
	"encoding/json"
	"fmt"
	"math/rand"
	"os"
	"path/filepath"
	"regexp"
	"sort"
	"strings"
	"sync"
	"time"

	"verif/internal/build"
	"verif/internal/core"
	"verif/internal/evid"
	"verif/internal/rewrite"
	"verif/internal/simbuild"
	"verif/internal/xch"
)

// ---- mirror of the harness types (simsrc/gensim)

type GenInput struct {
	Spec    string            `json:"spec"`
	Config  string            `json:"config,omitempty"`
	Package string            `json:"package,omitempty"`
	Dir     string            `json:"dir,omitempty"`
	Overlay map[string]string `json:"overlay,omitempty"`
}

type HistItem struct {
	Input      GenInput `json:"input"`
	FSFailFile string   `json:"fs_fail_file,omitempty"`
}

type Scenario struct {
	ID            string         `json:"id"`
	Input         GenInput       `json:"input"`
	History       []HistItem     `json:"history,omitempty"`
	Seed          uint64         `json:"seed"`
	DefaultPolicy int            `json:"default_policy"`
	SitePolicy    map[string]int `json:"site_policy,omitempty"`
	Sched         bool           `json:"sched"`
	Procs         int            `json:"gomaxprocs"`
	YieldP        float64        `json:"yield_p"`
	MaxDelay      int            `json:"max_delay"`
	PoolPolicy    int            `json:"pool_policy"`
	Poison        bool           `json:"poison"`
	FSFailFile    string         `json:"fs_fail_file,omitempty"`
	FSStallFile   string         `json:"fs_stall_file,omitempty"`
	Stats         bool           `json:"stats,omitempty"`
	KeepFiles     string         `json:"keep_files,omitempty"`
}

type SiteStat struct {
	Calls        int `json:"calls"`
	Multi        int `json:"multi"`
	Uncontrolled int `json:"uncontrolled"`
	Reordered    int `json:"reordered"`
}

type Result struct {
	Aborted     bool                `json:"aborted,omitempty"`
	ID          string              `json:"id"`
	Files       map[string]string   `json:"files"`
	Sizes       map[string]int      `json:"sizes"`
	Err         string              `json:"err,omitempty"`
	ErrInjected bool                `json:"err_injected,omitempty"`
	ToolTrouble string              `json:"tool_trouble,omitempty"`
	Panic       string              `json:"panic,omitempty"`
	DupWrites   []string            `json:"dup_writes,omitempty"`
	HistErrs    []string            `json:"hist_errs,omitempty"`
	Yields      int                 `json:"yields"`
	Switches    int                 `json:"switches"`
	SchedHash   string              `json:"sched_hash"`
	Streams     int                 `json:"streams"`
	FakeNS      int64               `json:"fake_ns"`
	WallMS      int64               `json:"wall_ms"`
	SiteStats   map[string]SiteStat `json:"site_stats,omitempty"`
	PoolReused  int                 `json:"pool_reused"`
	PoolPoison  int                 `json:"pool_poisoned"`
	Tasks       int                 `json:"tasks"`
	LimitHit    bool                `json:"limit_hit"`

	Races   []string `json:"-"` // race reports printed while this scenario ran
	Missing bool     `json:"-"` // the process died before writing the result
	Stderr  string   `json:"-"`
}

// Policies (simrt.Policy)
const (
	Native = iota
	Canonical
	Reversed
	Rotated
	Permuted
	PerCall
)

var policyNames = []string{"native", "canonical", "reversed", "rotated", "permuted", "percall"}

// Engine owns the scratch copy and the simulation binaries.
type Engine struct {
	S       *build.Scratch
	Plain   string
	Race    string
	Rewrite *rewrite.Stats
	Sites   []string          // R1/R2 site ids
	Labels  map[string]string // site id -> stable label
	jobSeq  int
	mu      sync.Mutex
}

// NewEngine copies, instruments and builds. withRace also builds the race binary.
func NewEngine(id string, withRace bool) (*Engine, error) {
	s, err := build.NewScratch(id)
	if err != nil {
		return nil, err
	}
	if err := s.CopyRepo("/examples", "/internal/integration", "/_logo"); err != nil {
		return nil, err
	}
	st, err := simbuild.InstrumentOgen(s)
	if err != nil {
		return nil, err
	}
	if err := simbuild.PrepareHarness(s, "gensim"); err != nil {
		return nil, err
	}
	e := &Engine{S: s, Rewrite: st, Labels: map[string]string{}}
	for _, x := range st.Sites {
		if x.Rule == "R1" || x.Rule == "R2" {
			e.Sites = append(e.Sites, x.ID)
			e.Labels[x.ID] = x.Label
		}
	}
	var wg sync.WaitGroup
	var e1, e2 error
	wg.Add(1)
	go func() { defer wg.Done(); e.Plain, e1 = simbuild.BuildTest(s, "gensim", "gensim.plain", false) }()
	if withRace {
		wg.Add(1)
		go func() { defer wg.Done(); e.Race, e2 = simbuild.BuildTest(s, "gensim", "gensim.race", true) }()
	}
	wg.Wait()
	if e1 != nil {
		return nil, e1
	}
	if e2 != nil {
		return nil, e2
	}
	return e, nil
}

var raceRe = regexp.MustCompile(`(?s)WARNING: DATA RACE.*?={18}`)

// RunJob executes scenarios in one process of the given binary and returns results in order.
func (e *Engine) RunJob(bin string, scs []Scenario, timeout time.Duration) ([]Result, error) {
	e.mu.Lock()
	e.jobSeq++
	n := e.jobSeq
	e.mu.Unlock()
	dir := filepath.Join(e.S.Dir, "jobs")
	_ = os.MkdirAll(dir, 0o755)
	jobPath := filepath.Join(dir, fmt.Sprintf("job%d.json", n))
	outPath := filepath.Join(dir, fmt.Sprintf("job%d.out", n))
	defer os.Remove(jobPath)
	defer os.Remove(outPath)
	b, _ := json.Marshal(map[string]any{"scenarios": scs, "out": outPath})
	if err := os.WriteFile(jobPath, b, 0o644); err != nil {
		return nil, build.Toolf("job: %v", err)
	}
	env := []string{"VERIF_SIM_JOB=" + jobPath, "GORACE=halt_on_error=0 exitcode=0 history_size=3"}
	r := e.S.Run(e.S.Src, timeout, env, bin, "-test.run", "^TestSim$", "-test.timeout", "0", "-test.count", "1")
	stderr := string(r.Stderr) + string(r.Stdout)
	results := make([]Result, len(scs))
	for i := range results {
		results[i] = Result{ID: scs[i].ID, Missing: true}
	}
	if f, err := os.Open(outPath); err == nil {
		sc := bufio.NewScanner(f)
		sc.Buffer(make([]byte, 1<<24), 1<<24)
		i := 0
		for sc.Scan() && i < len(results) {
			var res Result
			if err := json.Unmarshal(sc.Bytes(), &res); err == nil {
				results[i] = res
			}
			i++
		}
		f.Close()
	}
	// attribute race reports to scenarios by the markers on stderr
	parts := strings.Split(stderr, "\nSCENARIO-BEGIN ")
	for _, p := range parts[1:] {
		var idx int
		fmt.Sscanf(p, "%d", &idx)
		if idx < 0 || idx >= len(results) {
			continue
		}
		for _, m := range raceRe.FindAllString(p, -1) {
			results[idx].Races = append(results[idx].Races, m)
		}
	}
	if strings.Contains(stderr, "WATCHDOG scenario") {
		return results, build.Toolf("simulation stalled (watchdog):\n%s", tailStr(stderr, 6000))
	}
	if r.Err != nil && !strings.Contains(fmt.Sprint(r.Err), "exit status") {
		return results, build.Toolf("simulation process: %v\n%s", r.Err, tailStr(stderr, 4000))
	}
	// A process that died (fatal error, unrecovered panic in a goroutine of the code under test) takes the
	// rest of its batch with it: only the first scenario without a result was running; the ones behind it are
	// run again in a fresh process.
	for i := range results {
		if results[i].Missing {
			results[i].Stderr = tailStr(stderr, 4000)
			if i+1 < len(scs) {
				rest, err := e.RunJob(bin, scs[i+1:], timeout)
				copy(results[i+1:], rest)
				return results, err
			}
			break
		}
	}
	for i := range results {
		if results[i].Missing {
			results[i].Stderr = tailStr(stderr, 4000)
		}
	}
	return results, nil
}

func tailStr(s string, n int) string {
	if len(s) > n {
		return s[len(s)-n:]
	}
	return s
}

// RunAll distributes scenarios over processes (perProc scenarios each), jobs at a time.
func (e *Engine) RunAll(bin string, scs []Scenario, perProc, jobs int) ([]Result, error) {
	results := make([]Result, len(scs))
	var wg sync.WaitGroup
	sem := make(chan struct{}, jobs)
	var firstErr error
	var emu sync.Mutex
	for lo := 0; lo < len(scs); lo += perProc {
		hi := min(lo+perProc, len(scs))
		wg.Add(1)
		sem <- struct{}{}
		go func(lo, hi int) {
			defer wg.Done()
			defer func() { <-sem }()
			rs, err := e.RunJob(bin, scs[lo:hi], 30*time.Minute)
			if err != nil {
				emu.Lock()
				if firstErr == nil {
					firstErr = err
				}
				emu.Unlock()
			}
			copy(results[lo:hi], rs)
		}(lo, hi)
	}
	wg.Wait()
	return results, firstErr
}

// ---- workload

// editedParts: for a multi-file world (worlds/gen/multi/root.yml) the content its external document parts.yml
// had "before it was edited" (parts.alt, next to it): an earlier generation of the same process may have read the
// same location with that content.
func editedParts(spec string) map[string]string {
	if filepath.Base(filepath.Dir(spec)) != "multi" {
		return nil
	}
	b, err := os.ReadFile(filepath.Join(build.VerifDir, "worlds", "gen", "multi", "parts.alt"))
	if err != nil {
		return nil
	}
	return map[string]string{"parts.yml": string(b)}
}

// siblings are the other inputs whose document name differs from in's only behind the last underscore.
func siblings(in Input, all []Input) []Input {
	stem := func(p string) string {
		b := strings.TrimSuffix(filepath.Base(p), filepath.Ext(p))
		if i := strings.LastIndex(b, "_"); i > 0 {
			return filepath.Join(filepath.Dir(p), b[:i])
		}
		return ""
	}
	st := stem(in.In.Spec)
	if st == "" || !strings.Contains(in.In.Spec, "near_") {
		return nil
	}
	var out []Input
	for _, o := range all {
		if !o.Big && o.In.Spec != in.In.Spec && stem(o.In.Spec) == st {
			out = append(out, o)
		}
	}
	return out
}

// AssembleIndex makes the pool document with the given index (a pure function of the index).
func AssembleIndex(idx int) string {
	rng := rand.New(rand.NewSource(asmBase*1_000_003 + int64(idx)))
	if idx >= AsmPoolV1 {
		return AssembleV2(rng)
	}
	return Assemble(rng)
}

// AsmPool is the number of assembled documents in the pool; asmBase is the assembler seed of the pool.
const (
	AsmPool   = 900
	AsmPoolV1 = 600 // indices below are made by Assemble, those from here on by AssembleV2
	asmBase   = 7
)

const defaultConfig = "parser:\n  infer_types: true\n  allow_remote: true\ngenerator:\n  ignore_not_implemented: [\"all\"]\n"

// Input is a workload item.
type Input struct {
	Name  string
	In    GenInput
	Big   bool // few seeds
	Class string
}

func featureConfigs() map[string]string {
	base := defaultConfig
	return map[string]string{
		"default":       base,
		"all-features":  base + "  features:\n    enable: [\"paths/client\", \"paths/server\", \"webhooks/client\", \"webhooks/server\", \"client/security/reentrant\", \"client/request/options\", \"client/request/validation\", \"server/response/validation\", \"ogen/otel\", \"ogen/unimplemented\", \"debug/example_tests\"]\n",
		"client-only":   base + "  features:\n    disable: [\"paths/server\", \"webhooks/server\"]\n",
		"server-only":   base + "  features:\n    disable: [\"paths/client\", \"webhooks/client\", \"ogen/otel\"]\n",
		"webhooks-only": base + "  features:\n    disable_all: true\n    enable: [\"webhooks/client\", \"webhooks/server\"]\n",
	}
}

// Corpus lists the workload: repository corpus in the scratch copy plus /verif/worlds/gen.
func (e *Engine) Corpus() ([]Input, error) {
	var out []Input
	add := func(class, path, cfgName, cfg string, big bool) {
		rel, err := filepath.Rel(e.S.Src, path)
		if err != nil || strings.HasPrefix(rel, "..") {
			rel, _ = filepath.Rel(build.VerifDir, path)
		}
		out = append(out, Input{Name: rel + " [" + cfgName + "]", In: GenInput{Spec: path, Config: cfg}, Big: big, Class: class})
	}
	isSpec := func(n string) bool {
		return strings.HasSuffix(n, ".json") || strings.HasSuffix(n, ".yml") || strings.HasSuffix(n, ".yaml")
	}
	// (_testdata/negative: documents the tree refuses. They are workloads too: a tree that accepts one of them must
	// generate it deterministically, and a refusal must not depend on order, schedule or history either.)
	for _, dir := range []string{"_testdata/positive", "_testdata/examples", "_testdata/negative"} {
		root := filepath.Join(e.S.Src, dir)
		err := filepath.Walk(root, func(p string, info os.FileInfo, err error) error {
			if err != nil {
				return err
			}
			if info.IsDir() {
				if info.Name() == "file_reference_external" {
					return filepath.SkipDir
				}
				return nil
			}
			if !isSpec(info.Name()) || info.Size() == 0 {
				return nil
			}
			cfg := defaultConfig
			if filepath.Base(filepath.Dir(p)) == "convenient_errors" {
				cfg += "  convenient_errors: \"on\"\n"
			}
			add("corpus", p, "default", cfg, info.Size() > 600_000)
			return nil
		})
		if err != nil {
			return nil, build.Toolf("corpus: %v", err)
		}
	}
	// the recorded go:generate configurations of the integration fixtures
	cfgDir := filepath.Join(build.Repo, "internal", "integration", "_config")
	for _, pair := range [][2]string{
		{"sample_api.yml", "_testdata/positive/sample.json"}, {"sample_api_ns.yml", "_testdata/positive/sample.json"},
		{"sample_api_nc.yml", "_testdata/positive/sample.json"}, {"sample_api_nsnc.yml", "_testdata/positive/sample.json"},
		{"sample_api_no_otel.yml", "_testdata/positive/sample.json"}, {"security_reentrant.yml", "_testdata/positive/security.json"},
		{"client_options.yml", "_testdata/positive/client_options.json"},
	} {
		b, err := os.ReadFile(filepath.Join(cfgDir, pair[0]))
		if err != nil {
			continue
		}
		add("corpus-config", filepath.Join(e.S.Src, pair[1]), pair[0], string(b), false)
	}
	// the feature-matrix documents of the typed exchange (internal/xch/matrix.go): every parameter cell, media type,
	// encoding, response structure and security structure is also a generation workload
	for _, p := range xch.WriteMatrix(filepath.Join(e.S.Dir, "matrix")) {
		if strings.HasSuffix(p, "_b.json") {
			continue // the same document again (the exchange checks generate it in a second configuration)
		}
		for _, fn := range []string{"default", "all-features"} {
			out = append(out, Input{Name: "matrix/" + filepath.Base(p) + " [" + fn + "]", In: GenInput{Spec: p, Config: featureConfigs()[fn]}, Class: "corpus"})
		}
	}
	// order-stress worlds, in every feature configuration
	wdir := filepath.Join(build.VerifDir, "worlds", "gen")
	var worlds []string
	_ = filepath.Walk(wdir, func(p string, info os.FileInfo, err error) error {
		if err == nil && !info.IsDir() && isSpec(info.Name()) {
			// files of a multi-file world other than its root are reached through $ref
			if filepath.Base(filepath.Dir(p)) == "multi" && info.Name() != "root.yml" {
				return nil
			}
			worlds = append(worlds, p)
		}
		return nil
	})
	sort.Strings(worlds)
	fcs := featureConfigs()
	var fnames []string
	for k := range fcs {
		fnames = append(fnames, k)
	}
	sort.Strings(fnames)
	for _, w := range worlds {
		for _, fn := range fnames {
			add("stress", w, fn, fcs[fn], false)
		}
	}
	return out, nil
}

// ---- scenario sampling

// Sample draws one scenario (exported for the self-test).
func (e *Engine) Sample(rng *rand.Rand, in Input, all []Input, i int, sched bool) Scenario {
	return e.sample(rng, in, all, i, sched)
}

func (e *Engine) sample(rng *rand.Rand, in Input, all []Input, i int, sched bool) Scenario {
	sc := Scenario{
		ID:    fmt.Sprintf("%s #%d", in.Name, i),
		Input: in.In,
		Seed:  rng.Uint64(),
		Sched: sched,
		Procs: []int{1, 2, 3, 4, 8, 16, 64}[rng.Intn(7)],
		Stats: true,
	}
	// the working directory: empty, or a user's package directory with look-alike imports
	// (an input that names its own working directory - C14's directives, whose spec paths are relative to it - keeps it)
	if sc.Input.Dir == "" {
		sc.Input.Dir = e.cwdDir([]string{"empty", "empty", "project"}[rng.Intn(3)])
	}
	// order policy: mostly one policy everywhere; sometimes a mixture per site
	// never the native order at ogen's own sites: it adds nothing (map orders inside dependencies are native in
	// every run anyway) and a failure found with it could not be replayed or attributed
	pols := []int{Reversed, Rotated, Permuted, Permuted, PerCall}
	sc.DefaultPolicy = pols[rng.Intn(len(pols))]
	if rng.Intn(3) == 0 {
		sc.SitePolicy = map[string]int{}
		for _, s := range e.Sites {
			if rng.Intn(2) == 0 {
				sc.SitePolicy[s] = []int{Canonical, Reversed, Rotated, Permuted}[rng.Intn(4)]
			}
		}
	}
	sc.YieldP = []float64{0, 0.001, 0.01, 0.05, 0.2, 1}[rng.Intn(6)]
	if in.Big && sc.YieldP > 0.01 {
		sc.YieldP = 0.01
	}
	sc.MaxDelay = []int{1, 2, 5, 50}[rng.Intn(4)]
	sc.PoolPolicy = rng.Intn(3)
	sc.Poison = rng.Intn(4) != 0
	// in-process history
	if !in.Big {
		for n := []int{0, 0, 1, 1, 2, 3, 4}[rng.Intn(7)]; n > 0; n-- {
			var h HistItem
			switch rng.Intn(5) {
			case 0:
				h.Input = in.In // same spec before
				if alt := editedParts(in.In.Spec); alt != nil && rng.Intn(2) == 0 {
					// the same document, whose external part had other content when it was read then
					h.Input.Overlay = alt
				}
			case 1:
				h.Input = in.In
				h.FSFailFile = []string{"oas_schemas_gen.go", "oas_cfg_gen.go", "oas_json_gen.go"}[rng.Intn(3)]
			case 2:
				h.Input = GenInput{Spec: in.In.Spec, Config: "generator: [broken"} // fails in config
			default:
				o := all[rng.Intn(len(all))]
				for o.Big {
					o = all[rng.Intn(len(all))]
				}
				// a near-identical sibling (near_a.yml / near_b.yml: the same names and equivalent patterns in another
				// spelling) is the earlier generation most likely to leave something behind that matters
				if sib := siblings(in, all); len(sib) > 0 && rng.Intn(2) == 0 {
					o = sib[rng.Intn(len(sib))]
				}
				h.Input = o.In
			}
			if h.Input.Dir == "" {
				h.Input.Dir = e.cwdDir([]string{"empty", "project"}[rng.Intn(2)])
			}
			sc.History = append(sc.History, h)
		}
	}
	switch rng.Intn(12) {
	case 0:
		sc.FSFailFile = []string{"oas_schemas_gen.go", "oas_cfg_gen.go", "oas_json_gen.go", "oas_router_gen.go"}[rng.Intn(4)]
	case 1:
		sc.FSStallFile = []string{"oas_schemas_gen.go", "oas_cfg_gen.go", "oas_client_gen.go"}[rng.Intn(3)]
	}
	return sc
}

// cwdDir: the working directories a generation may be started in (the generator formats its output with
// x/tools/imports under a bare file name, so the working directory is a hidden input): an empty one, and a user's
// package directory - same package name as the generated code, hand-written files that import third-party packages
// whose names equal standard library ones.
func (e *Engine) cwdDir(kind string) string {
	d := filepath.Join(e.S.Dir, "cwd", kind)
	if _, err := os.Stat(d); err == nil {
		return d
	}
	_ = os.MkdirAll(d, 0o755)
	if kind == "project" {
		_ = os.WriteFile(filepath.Join(d, "helpers.go"), []byte(projectHelpers), 0o644)
		_ = os.WriteFile(filepath.Join(d, "helpers_test.go"), []byte("package api\n\nimport (\n\t\"testing\"\n\n\t\"github.com/stretchr/testify/require\"\n)\n\nfunc TestX(t *testing.T) { require.True(t, true) }\n"), 0o644)
	}
	return d
}

const projectHelpers = `package api

import (
	"github.com/gofrs/uuid"
	json "github.com/goccy/go-json"
	errors "github.com/pkg/errors"
	"golang.org/x/exp/maps"
	"golang.org/x/exp/slices"
	rand "math/rand/v2"
	url "example.test/compat/url"
	fmt "example.test/compat/fmt"
	strings "example.test/compat/strings"
	time "example.test/compat/time"
	bytes "example.test/compat/bytes"
	sort "example.test/compat/sort"
	http "example.test/compat/http"
	context "example.test/compat/context"
	strconv "example.test/compat/strconv"
	math "example.test/compat/math"
	big "example.test/compat/big"
	io "example.test/compat/io"
	regexp "example.test/compat/regexp"
	sync "example.test/compat/sync"
	netip "example.test/compat/netip"
	net "example.test/compat/net"
	mime "example.test/compat/mime"
	multipart "example.test/compat/multipart"
	reflect "example.test/compat/reflect"
	bits "example.test/compat/bits"
	utf8 "example.test/compat/utf8"
)

func helper() {
	_ = uuid.Nil
	_, _ = json.Marshal(nil)
	_ = errors.New("x")
	_ = maps.Keys(map[string]int{})
	slices.SortFunc([]int{}, func(a, b int) int { return a - b })
	_ = rand.IntN(3)
	_ = url.Parse; _ = fmt.Sprintf; _ = strings.Compare; _ = time.Now; _ = bytes.NewReader; _ = sort.Strings; _ = http.NewRequest
	_ = context.Background; _ = strconv.Itoa; _ = math.Abs; _ = big.NewRat; _ = io.ReadAll; _ = regexp.MustCompile; _ = sync.Pool{}
	_ = netip.ParseAddr; _ = net.ParseIP; _ = mime.ParseMediaType; _ = multipart.NewWriter; _ = reflect.TypeOf; _ = bits.Len; _ = utf8.RuneCountInString
}
`

func reference(in Input) Scenario {
	return Scenario{ID: "ref " + in.Name, Input: in.In, Seed: 1, DefaultPolicy: Canonical, Sched: false, Procs: 4, Stats: true}
}

func sameFiles(a, b map[string]string) (diff []string) {
	for k, v := range a {
		if w, ok := b[k]; !ok {
			diff = append(diff, "missing:"+k)
		} else if w != v {
			diff = append(diff, "differs:"+k)
		}
	}
	for k := range b {
		if _, ok := a[k]; !ok {
			diff = append(diff, "extra:"+k)
		}
	}
	sort.Strings(diff)
	return
}

// judge compares a measured result with its reference. It returns the oracle and a description, or "".
func judge(sc Scenario, ref, res Result) (oracle, what string, diff []string) {
	switch {
	case res.Aborted:
		return "generation terminates", "the scenario's goroutine was ended before it finished", nil
	case res.Missing:
		return "generation terminates", "the simulation process died during this scenario: " + tailStr(res.Stderr, 1500), nil
	case res.Panic != "":
		return "generation does not panic / all tasks finish", "panic: " + res.Panic, nil
	case len(res.DupWrites) > 0:
		return "no two template tasks write the same file", fmt.Sprint("written twice: ", res.DupWrites), res.DupWrites
	}
	if sc.FSFailFile != "" && ref.Err == "" {
		// fault relaxation: error must wrap the injected one; delivered files must be reference bytes
		if _, produced := ref.Files[sc.FSFailFile]; produced {
			if res.Err == "" || !res.ErrInjected {
				return "an injected write failure is reported", fmt.Sprintf("WriteFile(%s) failed with the injected error but WriteSource returned %q", sc.FSFailFile, res.Err), nil
			}
			var d []string
			for k, v := range res.Files {
				if ref.Files[k] != v {
					d = append(d, "differs:"+k)
				}
			}
			if len(d) > 0 {
				sort.Strings(d)
				return "files delivered before a write fault are reference bytes", strings.Join(d, ","), d
			}
			return "", "", nil
		}
	}
	if (ref.Err == "") != (res.Err == "") {
		return "same success/failure as the reference", fmt.Sprintf("reference err=%q, this run err=%q", ref.Err, res.Err), []string{"error"}
	}
	if ref.Err != "" {
		return "", "", nil
	}
	if d := sameFiles(ref.Files, res.Files); len(d) > 0 {
		return "byte identity with the reference generation", strings.Join(d, ","), d
	}
	return "", "", nil
}

// minimise shrinks a failing scenario while the same oracle fails: schedule off, history dropped,
// faults dropped, then the set of sites with a non-canonical order bisected to a minimal culprit set.
func (e *Engine) minimise(sc Scenario, ref Result, oracle string, hints [][]string) (Scenario, []string, int) {
	runs := 0
	fails := func(x Scenario) bool {
		runs++
		x.Stats = false
		rs, err := e.RunJob(e.Plain, []Scenario{x}, 10*time.Minute)
		if err != nil || len(rs) != 1 {
			return false
		}
		o, _, _ := judge(x, ref, rs[0])
		return o == oracle
	}
	cur := sc
	try := func(mut func(*Scenario)) {
		x := cur
		x.SitePolicy = cloneMap(cur.SitePolicy)
		x.History = append([]HistItem(nil), cur.History...)
		mut(&x)
		if fails(x) {
			cur = x
		}
	}
	try(func(x *Scenario) { x.History = nil })
	if strings.Contains(cur.Input.Dir, "/cwd/") {
		try(func(x *Scenario) { x.Input.Dir = e.cwdDir("empty") })
	}
	for len(cur.History) > 1 {
		before := len(cur.History)
		try(func(x *Scenario) { x.History = x.History[1:] })
		if len(cur.History) == before {
			break
		}
	}
	try(func(x *Scenario) { x.Sched = false; x.YieldP = 0 })
	try(func(x *Scenario) { x.FSStallFile = "" })
	try(func(x *Scenario) { x.FSFailFile = "" })
	try(func(x *Scenario) { x.Procs = 1 })
	try(func(x *Scenario) { x.PoolPolicy = 0; x.Poison = false })
	// all-canonical: is map order involved at all?
	allCanon := cur
	allCanon.DefaultPolicy = Canonical
	allCanon.SitePolicy = nil
	if fails(allCanon) {
		cur = allCanon
		return cur, nil, runs
	}
	// explicit per-site form
	pol := func(s string) int {
		if p, ok := cur.SitePolicy[s]; ok {
			return p
		}
		return cur.DefaultPolicy
	}
	var active []string
	for _, s := range e.Sites {
		if pol(s) != Canonical {
			active = append(active, s)
		}
	}
	with := func(set []string) Scenario {
		x := cur
		x.DefaultPolicy = Canonical
		x.SitePolicy = map[string]int{}
		for _, s := range set {
			p := pol(s)
			if p == Native {
				p = Permuted
			}
			x.SitePolicy[s] = p
		}
		return x
	}
	if cur.DefaultPolicy == Native || !fails(with(active)) {
		// native order is not replayable site by site; report as is
		return cur, active, runs
	}
	// culprit sets already found in this run: one run each instead of a full bisection
	for _, h := range hints {
		ok := true
		for _, s := range h {
			found := false
			for _, a := range active {
				if a == s {
					found = true
				}
			}
			ok = ok && found
		}
		if ok && len(h) > 0 && fails(with(h)) {
			return with(h), h, runs
		}
	}
	// ddmin
	n := 2
	for len(active) >= 2 {
		chunk := (len(active) + n - 1) / n
		reduced := false
		for i := 0; i < len(active); i += chunk {
			sub := active[i:min(i+chunk, len(active))]
			if fails(with(sub)) {
				active, n, reduced = append([]string(nil), sub...), 2, true
				break
			}
		}
		if !reduced {
			for i := 0; i < len(active); i += chunk {
				comp := append(append([]string(nil), active[:i]...), active[min(i+chunk, len(active)):]...)
				if len(comp) > 0 && fails(with(comp)) {
					active, n, reduced = comp, max(n-1, 2), true
					break
				}
			}
		}
		if !reduced {
			if n >= len(active) {
				break
			}
			n = min(n*2, len(active))
		}
	}
	return with(active), active, runs
}

// attribute is the cheap first step for a failing scenario: with every other setting left as it is, is the
// failure reproduced when only the sites of a known culprit set keep their non-canonical order? One run per
// hint. It is what recognises a recorded finding without depending on the minimisation budget.
func (e *Engine) attribute(sc Scenario, ref Result, oracle string, hints [][]string) (Scenario, []string, bool) {
	pol := func(s string) int {
		if p, ok := sc.SitePolicy[s]; ok {
			return p
		}
		return sc.DefaultPolicy
	}
	// A scenario that ran with the native (uncontrolled) order cannot be replayed site by site; for it the
	// question is asked with controlled orders at the hinted sites instead.
	variants := []struct {
		policy int
		seed   uint64
	}{{-1, sc.Seed}}
	for _, s := range e.Sites {
		if pol(s) == Native {
			variants = []struct {
				policy int
				seed   uint64
			}{{Reversed, sc.Seed}, {Rotated, sc.Seed}, {Permuted, sc.Seed}, {Permuted, sc.Seed + 1}, {Permuted, sc.Seed + 2}}
			break
		}
	}
	for _, h := range hints {
		for _, v := range variants {
			x := sc
			x.Stats = false
			x.Seed = v.seed
			x.DefaultPolicy = Canonical
			x.SitePolicy = map[string]int{}
			active := 0
			for _, s := range h {
				p := pol(s)
				if v.policy >= 0 {
					p = v.policy
				}
				if p != Canonical {
					x.SitePolicy[s] = p
					active++
				}
			}
			if active != len(h) {
				continue
			}
			rs, err := e.RunJob(e.Plain, []Scenario{x}, 10*time.Minute)
			if err != nil || len(rs) != 1 {
				continue
			}
			if o, _, _ := judge(x, ref, rs[0]); o == oracle {
				return x, h, true
			}
		}
	}
	return sc, nil, false
}

func cloneMap(m map[string]int) map[string]int {
	if m == nil {
		return nil
	}
	o := make(map[string]int, len(m))
	for k, v := range m {
		o[k] = v
	}
	return o
}

// siteKey renders a culprit site set by stable labels (file:Func/rule#n), e.g. [gen/gen_responses.go:(*Generator).responseToIR/R1#2].
func (e *Engine) siteKey(sites []string) string {
	var fs []string
	for _, s := range sites {
		l := e.Labels[s]
		if l == "" {
			l = s
		}
		fs = append(fs, l)
	}
	sort.Strings(fs)
	return "[" + strings.Join(fs, "+") + "]"
}

// Run is the C10 check.
func Run(c *core.Ctx) (*core.Outcome, error) {
	e, err := NewEngine(c.ID, true)
	if err != nil {
		return nil, err
	}
	defer e.S.Remove()
	return e.Check(c, nil)
}

// Check runs the exploration. filter restricts the workload (nil = all).
func (e *Engine) Check(c *core.Ctx, filter func(Input) bool) (*core.Outcome, error) {
	corpus, err := e.Corpus()
	if err != nil {
		return nil, err
	}
	if filter != nil {
		var f []Input
		for _, in := range corpus {
			if filter(in) {
				f = append(f, in)
			}
		}
		corpus = f
	}
	out := &core.Outcome{}

	if c.Replay != nil {
		return e.replay(c)
	}
	if cl := os.Getenv("VERIF_C10_CLASS"); cl != "" {
		// development aid: restrict the workload to one class (corpus, corpus-config, stress, assembled)
		var f []Input
		for _, in := range corpus {
			if in.Class == cl {
				f = append(f, in)
			}
		}
		corpus = f
	}
	// seeded assembler: random compositions of the stress fragments (a workload generator)
	if filter == nil {
		nAsm := 14
		if c.Tier == "thorough" {
			nAsm = 200
		}
		if v := os.Getenv("VERIF_C10_ASM"); v != "" {
			fmt.Sscan(v, &nAsm) // development aid: size of the assembled part of the workload
		}
		// The documents come from a fixed pool (AsmPool indices, each a pure function of its index) that has been
		// run through this check on the unchanged tree; VERIF_SEED selects which part of the pool a run uses and
		// drives orders, schedules and faults, but does not invent documents nobody has looked at.
		// two thirds from the first part of the pool, one third from the second (AssembleV2)
		n2 := nAsm / 3
		n1 := nAsm - n2
		pos := func(seed int64, n, size int) int {
			if n >= size {
				return 0
			}
			return int((seed*int64(n))%int64(size-n+1)+int64(size-n+1)) % (size - n + 1)
		}
		var indices []int
		for k := 0; k < n1; k++ {
			indices = append(indices, (pos(c.Seed, n1, AsmPoolV1)+k)%AsmPoolV1)
		}
		for k := 0; k < n2; k++ {
			indices = append(indices, AsmPoolV1+(pos(c.Seed, n2, AsmPool-AsmPoolV1)+k)%(AsmPool-AsmPoolV1))
		}
		if v := os.Getenv("VERIF_C10_ASM_FROM"); v != "" {
			// development aid: a contiguous range of the pool
			from := 0
			fmt.Sscan(v, &from)
			indices = nil
			for k := 0; k < nAsm; k++ {
				indices = append(indices, (from+k)%AsmPool)
			}
		}
		adir := filepath.Join(e.S.Dir, "assembled")
		_ = os.MkdirAll(adir, 0o755)
		for _, idx := range indices {
			p := filepath.Join(adir, fmt.Sprintf("asm-%d-%d.yml", asmBase, idx))
			doc := AssembleIndex(idx)
			if err := os.WriteFile(p, []byte(doc), 0o644); err != nil {
				return nil, build.Toolf("assembler: %v", err)
			}
			corpus = append(corpus, Input{Name: fmt.Sprintf("assembled/%s [default]", filepath.Base(p)), In: GenInput{Spec: p, Config: defaultConfig}, Class: "assembled"})
		}
	}

	// references: one fresh process each
	refScs := make([]Scenario, len(corpus))
	for i, in := range corpus {
		refScs[i] = reference(in)
		if refScs[i].Input.Dir == "" {
			refScs[i].Input.Dir = e.cwdDir("empty")
		}
	}
	refs, err := e.RunAll(e.Plain, refScs, 1, c.Jobs)
	if err != nil {
		return nil, err
	}
	refBy := map[string]Result{}
	var usable []Input
	refErrs := 0
	for i, in := range corpus {
		r := refs[i]
		if r.ToolTrouble != "" {
			return nil, build.Toolf("reference %s: %s", in.Name, r.ToolTrouble)
		}
		if r.Missing || r.Panic != "" {
			return nil, build.Toolf("reference %s did not complete: %s %s", in.Name, r.Panic, tailStr(r.Stderr, 2000))
		}
		if r.Err != "" {
			refErrs++
		}
		refBy[in.Name] = r
		usable = append(usable, in)
	}

	// measured scenarios
	rng := rand.New(rand.NewSource(c.Seed))
	perSmall, perBig, perStress, perAsm := 5, 1, 20, 8
	raceShare := 5 // one in raceShare scenarios also runs in the race binary
	if c.Tier == "thorough" {
		perSmall, perBig, perStress, perAsm = 60, 4, 400, 30
		raceShare = 6
	}
	type item struct {
		sc Scenario
		in Input
	}
	var plain, race []item
	for _, in := range usable {
		n := perSmall
		if in.Big {
			n = perBig
		}
		if in.Class == "stress" {
			n = perStress
		}
		if in.Class == "assembled" {
			n = perAsm
		}
		for i := 0; i < n; i++ {
			sc := e.sample(rng, in, usable, i, i%4 != 3)
			plain = append(plain, item{sc, in})
			if (i%raceShare == 0 && !in.Big) || (in.Big && i == 0 && c.Tier == "thorough") {
				rs := sc
				rs.Stats = false // statistics take a lock: keep the race build free of harness synchronisation
				if rs.DefaultPolicy == PerCall {
					rs.DefaultPolicy = Permuted
				}
				race = append(race, item{rs, in})
			}
		}
	}
	t0 := time.Now()
	run := func(bin string, items []item, perProc int) ([]Result, error) {
		scs := make([]Scenario, len(items))
		for i := range items {
			scs[i] = items[i].sc
		}
		return e.RunAll(bin, scs, perProc, c.Jobs)
	}
	var plainRes, raceRes []Result
	var perr, rerr error
	var wg sync.WaitGroup
	wg.Add(2)
	go func() { defer wg.Done(); plainRes, perr = run(e.Plain, plain, 12) }()
	go func() { defer wg.Done(); raceRes, rerr = run(e.Race, race, 4) }()
	wg.Wait()
	if perr != nil {
		return nil, perr
	}
	if rerr != nil {
		return nil, rerr
	}
	exploreWall := time.Since(t0)

	// ---- oracles
	type failure struct {
		it     item
		res    Result
		oracle string
		what   string
		diff   []string
	}
	var fails []failure
	distinct := map[string]bool{}
	faults := map[string]int{"fs_write_failure_configured": 0, "fs_write_failure_fired": 0, "fs_stall": 0, "history_items": 0, "history_failing_items": 0}
	probes := map[string]int{"two_template_tasks_interleaved": 0, "errgroup_limit_reached": 0, "pool_reused_item": 0, "pool_poisoned_item": 0, "map_range_reordered": 0}
	siteAgg := map[string]*SiteStat{}
	var totYields, totSwitch int
	var fakeNS int64
	policyHist := map[string]int{}
	for i, it := range plain {
		res := plainRes[i]
		if res.ToolTrouble != "" {
			return nil, build.Toolf("scenario %s: %s", it.sc.ID, res.ToolTrouble)
		}
		ref := refBy[it.in.Name]
		policyHist[policyNames[it.sc.DefaultPolicy]]++
		if o, w, d := judge(it.sc, ref, res); o != "" {
			fails = append(fails, failure{it, res, o, w, d})
		}
		reordered := 0
		for s, st := range res.SiteStats {
			a := siteAgg[s]
			if a == nil {
				a = &SiteStat{}
				siteAgg[s] = a
			}
			a.Calls += st.Calls
			a.Multi += st.Multi
			a.Uncontrolled += st.Uncontrolled
			a.Reordered += st.Reordered
			reordered += st.Reordered
		}
		if res.Switches > 0 || reordered > 0 {
			distinct[fmt.Sprintf("%s|%s|%d|%d", it.in.Name, res.SchedHash, it.sc.Seed, it.sc.DefaultPolicy)] = true
		}
		if res.Switches > 0 {
			probes["two_template_tasks_interleaved"]++
		}
		if res.LimitHit {
			probes["errgroup_limit_reached"]++
		}
		if res.PoolReused > 0 {
			probes["pool_reused_item"]++
		}
		if res.PoolPoison > 0 {
			probes["pool_poisoned_item"]++
		}
		if reordered > 0 {
			probes["map_range_reordered"]++
		}
		if it.sc.FSFailFile != "" {
			faults["fs_write_failure_configured"]++
			if res.ErrInjected {
				faults["fs_write_failure_fired"]++
			}
		}
		if it.sc.FSStallFile != "" {
			faults["fs_stall"]++
		}
		faults["history_items"] += len(it.sc.History)
		for _, h := range res.HistErrs {
			if !strings.Contains(h, ": ok ") {
				faults["history_failing_items"]++
			}
		}
		totYields += res.Yields
		totSwitch += res.Switches
		fakeNS += res.FakeNS
	}
	raceReports := 0
	for i, it := range race {
		res := raceRes[i]
		if res.ToolTrouble != "" {
			return nil, build.Toolf("scenario %s: %s", it.sc.ID, res.ToolTrouble)
		}
		ref := refBy[it.in.Name]
		if res.Aborted || (res.Missing && len(res.Races) > 0) {
			// the race detector ended this scenario: the report below is the violation, there is no outcome to judge
		} else if o, w, d := judge(it.sc, ref, res); o != "" {
			fails = append(fails, failure{it, res, o, w, d})
		}
		for _, rep := range res.Races {
			raceReports++
			out.Violations = append(out.Violations, core.Violation{
				Key:    "race " + raceKey(rep),
				Oracle: "no data race between template tasks (race detector on the seeded schedule)",
				What:   fmt.Sprintf("%s: %s", it.sc.ID, clip(rep, 1800)),
				Seed:   c.Seed, Scenario: map[string]any{"binary": "race", "scenario": it.sc}, Trace: map[string]any{"report": rep, "sched_hash": res.SchedHash},
			})
		}
	}

	// ---- minimise and report byte/outcome failures (grouped so that one cause is minimised once;
	// groups are minimised in parallel under a wall-clock budget, later ones reuse culprit sets found earlier)
	sort.SliceStable(fails, func(i, j int) bool {
		// controlled orders first: a representative that ran with the native order cannot be minimised site by site
		ni, nj := fails[i].it.sc.DefaultPolicy == Native, fails[j].it.sc.DefaultPolicy == Native
		if ni != nj {
			return nj
		}
		return fails[i].it.sc.ID < fails[j].it.sc.ID
	})
	groupSeen := map[string]int{}
	var reps []failure
	for _, f := range fails {
		g := f.oracle + "|" + f.it.in.In.Spec + "|" + strings.Join(f.diff, ",")
		groupSeen[g]++
		if groupSeen[g] == 1 {
			reps = append(reps, f)
		}
	}
	type minimised struct {
		sc    Scenario
		sites []string
		runs  int
		done  bool
	}
	mins := make([]minimised, len(reps))
	{
		var hmu sync.Mutex
		var hints [][]string
		// culprit sets named by recorded findings come first
		if fs, err := evid.LoadFindings(); err == nil {
			for _, f := range fs {
				if f.Kind != "finding" || f.Property != c.ID {
					continue
				}
				var h []string
				for id, label := range e.Labels {
					if strings.Contains(f.Matcher, label) {
						h = append(h, id)
					}
				}
				if len(h) > 0 {
					sort.Strings(h)
					hints = append(hints, h)
				}
			}
		}
		budget := 150 * time.Second
		if c.Tier == "thorough" {
			budget = 15 * time.Minute
		}
		mstart := time.Now()
		sem := make(chan struct{}, max(2, c.Jobs/2))
		var mwg sync.WaitGroup
		for i := range reps {
			mins[i].sc = reps[i].it.sc
			mwg.Add(1)
			sem <- struct{}{}
			go func(i int) {
				defer mwg.Done()
				defer func() { <-sem }()
				hmu.Lock()
				hs := append([][]string(nil), hints...)
				hmu.Unlock()
				// cheap attribution to a known culprit set is not subject to the budget
				if sc, sites, ok := e.attribute(reps[i].it.sc, refBy[reps[i].it.in.Name], reps[i].oracle, hs); ok {
					mins[i] = minimised{sc, sites, 1, true}
					return
				}
				if time.Since(mstart) > budget {
					return
				}
				sc, sites, runs := e.minimise(reps[i].it.sc, refBy[reps[i].it.in.Name], reps[i].oracle, hs)
				mins[i] = minimised{sc, sites, runs, true}
				if len(sites) > 0 && len(sites) <= 4 {
					hmu.Lock()
					hints = append(hints, sites)
					hmu.Unlock()
				}
			}(i)
		}
		mwg.Wait()
	}
	for i, f := range reps {
		m := mins[i]
		sitesKey := e.siteKey(m.sites)
		if !m.done {
			sitesKey = "[not-minimised]"
		}
		key := fmt.Sprintf("%s spec=%s sites=%s files=%s", shortOracle(f.oracle), filepath.Base(f.it.in.In.Spec), sitesKey, strings.Join(f.diff, ","))
		out.Violations = append(out.Violations, core.Violation{
			Key:    key,
			Oracle: f.oracle,
			What:   fmt.Sprintf("%s: %s; minimal culprit sites: %v (minimised in %d runs)", f.it.sc.ID, clip(f.what, 600), m.sites, m.runs),
			Seed:   c.Seed, Scenario: map[string]any{"binary": "plain", "scenario": m.sc}, Trace: map[string]any{"sched_hash": f.res.SchedHash, "culprit_sites": m.sites, "original": f.it.sc},
		})
	}

	// ---- evidence
	never := []string{}
	multiSites := 0
	for _, s := range e.Sites {
		if a := siteAgg[s]; a == nil || a.Multi == 0 {
			never = append(never, s)
		} else {
			multiSites++
		}
	}
	var samples []any
	for i := 0; i < len(plain) && len(samples) < 3; i += max(1, len(plain)/3) {
		r := plainRes[i]
		samples = append(samples, map[string]any{"scenario": plain[i].sc, "files": len(r.Files), "yields": r.Yields, "switches": r.Switches, "sched_hash": r.SchedHash, "history": r.HistErrs, "err": r.Err})
	}
	total := len(plain) + len(race)
	out.Evidence = &evid.Evidence{
		Level: "exploration",
		Coverage: map[string]any{
			"evaluations":         total,
			"distinct_nontrivial": len(distinct),
			"rule": "seeded simulated generations of the real instrumented generator: each draws a map-order policy per range site, a template-task schedule (fake-clock time slicing in a synctest bubble), GOMAXPROCS/errgroup limit, pool policy, an in-process history of 0-4 earlier generations and sometimes a write fault, and is compared byte for byte with a canonical-order, unscheduled reference generation made in a fresh process; " +
				"a run counts as distinct non-trivial when at least one map range over >= 2 entries was reordered or two template tasks interleaved inside a file, and its (spec, schedule hash, policy seed) triple is new",
			"samples":                                samples,
			"inputs":                                 len(usable),
			"inputs_failing_in_reference":            refErrs,
			"plain_runs":                             len(plain),
			"race_runs":                              len(race),
			"race_reports":                           raceReports,
			"byte_or_outcome_failures":               len(fails),
			"runs_per_hour":                          int(float64(total) / exploreWall.Hours()),
			"seeds_per_hour":                         int(float64(total) / exploreWall.Hours()),
			"simulated_time_s":                       float64(fakeNS) / 1e9,
			"yields":                                 totYields,
			"context_switches":                       totSwitch,
			"default_policy_histogram":               policyHist,
			"fault_kinds":                            faults,
			"probes":                                 probes,
			"instrumentation_sites":                  e.Rewrite.PerRule,
			"uncontrolled_sites":                     e.Rewrite.Uncontrolled,
			"range_sites_total":                      len(e.Sites),
			"range_sites_with_multi_entry_execution": multiSites,
			"range_sites_never_multi":                never,
			"real_components":                        []string{"ogen.Parse, gen.NewGenerator, WriteSource and every package below them, from the instrumented scratch copy of the working tree", "text/template", "golang.org/x/tools/imports and its `go env` child process", "the race detector (race build of the same scenarios)"},
			"stubbed_components":                     []string{"gen.FileSystem: recording in-memory file system with injected write failures/stalls", "sync.Pool -> simrt.Pool (deterministic free list with poisoning)", "map iteration order at 88+ range sites -> simrt.Keys", "goroutine scheduling of template tasks -> fake-clock time slicing"},
		},
		Assumptions: []string{
			"rewrite rules R1/R2/R3/R5 preserve semantics (each is legal under the Go specification or the replaced API's contract)",
			"map iteration inside dependencies (yaml, x/tools) is only sampled natively",
			"an error of the external `go env` child (spawn failure) is tool trouble, exit 2",
		},
	}
	return out, nil
}

func shortOracle(o string) string {
	switch {
	case strings.HasPrefix(o, "byte identity"):
		return "bytes-differ"
	case strings.HasPrefix(o, "same success"):
		return "outcome-differs"
	case strings.HasPrefix(o, "generation does not panic"):
		return "panic"
	case strings.HasPrefix(o, "generation terminates"):
		return "died"
	case strings.HasPrefix(o, "an injected write failure"):
		return "fault-swallowed"
	case strings.HasPrefix(o, "files delivered"):
		return "fault-corrupts"
	}
	return strings.ReplaceAll(o, " ", "-")
}

var frameRe = regexp.MustCompile(`(?m)^  ([^\s(]+)\(`)

// raceKey identifies a race by the top frames of its two stacks.
func raceKey(rep string) string {
	var tops []string
	for _, blk := range strings.Split(rep, "\n\n") {
		if m := frameRe.FindStringSubmatch(blk); m != nil {
			tops = append(tops, m[1])
		}
		if len(tops) == 2 {
			break
		}
	}
	sort.Strings(tops)
	return strings.Join(tops, " vs ")
}

func clip(s string, n int) string {
	if len(s) > n {
		return s[:n] + "…"
	}
	return s
}

// replay re-runs the scenario of a replay file in a fresh process and reports whether it fails again.
func (e *Engine) replay(c *core.Ctx) (*core.Outcome, error) {
	var rs struct {
		Binary   string   `json:"binary"`
		Scenario Scenario `json:"scenario"`
	}
	if err := json.Unmarshal(c.Replay.Scenario, &rs); err != nil {
		return nil, build.Toolf("replay: %v", err)
	}
	sc := rs.Scenario
	// the scenario names the spec by its path in the scratch copy of the run that found it
	sc.Input.Spec = e.rebase(sc.Input.Spec)
	sc.Input.Dir = e.rebaseDir(sc.Input.Dir)
	for i := range sc.History {
		sc.History[i].Input.Spec = e.rebase(sc.History[i].Input.Spec)
		sc.History[i].Input.Dir = e.rebaseDir(sc.History[i].Input.Dir)
	}
	in := Input{Name: "replay", In: sc.Input}
	refSc := reference(in)
	if refSc.Input.Dir == "" {
		refSc.Input.Dir = e.cwdDir("empty")
	}
	refs, err := e.RunJob(e.Plain, []Scenario{refSc}, 20*time.Minute)
	if err != nil {
		return nil, err
	}
	bin := e.Plain
	if rs.Binary == "race" {
		bin = e.Race
	}
	res, err := e.RunJob(bin, []Scenario{sc}, 20*time.Minute)
	if err != nil {
		return nil, err
	}
	out := &core.Outcome{}
	fmt.Printf("replay: schedule hash %s\n", res[0].SchedHash)
	if len(res[0].Races) > 0 && (res[0].Aborted || res[0].Missing) {
		// the race detector ended the scenario: the reports below are the violation
	} else if o, w, d := judge(sc, refs[0], res[0]); o != "" {
		out.Violations = append(out.Violations, core.Violation{Key: c.Replay.Key, Oracle: o, What: w + " " + strings.Join(d, ","), Seed: c.Seed, Scenario: rs})
	}
	for _, rep := range res[0].Races {
		out.Violations = append(out.Violations, core.Violation{Key: "race " + raceKey(rep), Oracle: "no data race", What: clip(rep, 1500), Seed: c.Seed, Scenario: rs})
	}
	return out, nil
}

var scratchRe = regexp.MustCompile(`^.*/verif\.[A-Za-z0-9]+\.\d+/ogen/`)
var mxRe = regexp.MustCompile(`/matrix/mx_[a-z]+\.json$`)
var asmRe = regexp.MustCompile(`/assembled/asm-(-?\d+)-(\d+)\.yml$`)

// rebaseDir maps a working directory of the run that found a violation to this run's.
func (e *Engine) rebaseDir(d string) string {
	for _, k := range []string{"empty", "project"} {
		if strings.HasSuffix(d, "/cwd/"+k) {
			return e.cwdDir(k)
		}
	}
	return d
}

// rebase maps a spec path of the run that found a violation to this run's scratch copy; assembled specs
// are regenerated from their (seed, index), of which they are a pure function.
func (e *Engine) rebase(p string) string {
	if m := asmRe.FindStringSubmatch(p); m != nil {
		var seed, k int64
		fmt.Sscan(m[1], &seed)
		fmt.Sscan(m[2], &k)
		adir := filepath.Join(e.S.Dir, "assembled")
		_ = os.MkdirAll(adir, 0o755)
		np := filepath.Join(adir, filepath.Base(p))
		_ = os.WriteFile(np, []byte(Assemble(rand.New(rand.NewSource(seed*1_000_003+k)))), 0o644)
		return np
	}
	if mxRe.MatchString(p) {
		// a matrix document: written afresh (a pure function of its name)
		for _, np := range xch.WriteMatrix(filepath.Join(e.S.Dir, "matrix")) {
			if filepath.Base(np) == filepath.Base(p) {
				return np
			}
		}
	}
	if strings.HasPrefix(p, build.VerifDir+"/") || !scratchRe.MatchString(p) {
		// a world under /verif/worlds: the same relative path under this run's VERIF_DIR
		if i := strings.Index(p, "/worlds/"); i >= 0 {
			return filepath.Join(build.VerifDir, p[i+1:])
		}
		return p
	}
	return scratchRe.ReplaceAllString(p, e.S.Src+"/")
}
