package c10

import (
	"fmt"
	"math/rand"
	"strings"
)

// Assemble composes a random OpenAPI document from the feature fragments the order-stress specs are made
// of, with random multiplicities and key spellings (DESIGN.md section 4, C10: a workload generator, not
// a claim to cover "all specs"). The document is meant to be accepted by ogen with
// ignore_not_implemented: [all]; when it is not, the reference generation fails the same way and the
// input only checks that the failure does not depend on the hidden inputs.
func Assemble(rng *rand.Rand) string {
	a := &asm{rng: rng}
	return a.doc()
}

// AssembleV2 also uses the fragments added in the second build round (DESIGN.md 10.9): keywords next to a $ref,
// deprecated entities sharing one description text with line breaks, response headers whose names become the same
// Go identifier, inline responses sharing a component schema under different header sets. Pool indices from
// AsmPoolV1 on are made by it; the documents below that index are what they always were.
func AssembleV2(rng *rand.Rand) string {
	a := &asm{rng: rng, v2: true}
	return a.doc()
}

var sharedDocs = []string{
	"Kept for clients written against the first version.\nNew code must use the successor.\nThe result is limited to a hundred entries.\nRequests are counted against the same quota.\nSupport ends with the next major version.",
	"One line that is long enough to be wrapped by the generator into several comment lines, because it goes on and on about nothing in particular until the column limit is far behind it.\nAnd a second paragraph.\nAnd a third one.",
	"Short.",
}

// doc2 writes deprecated + a shared description (v2 only, sometimes).
func (a *asm) doc2(indent int) {
	if !a.v2 || a.rng.Intn(3) != 0 {
		return
	}
	a.w(indent, "deprecated: true")
	a.w(indent, "description: %q", a.pick(sharedDocs))
}

type asm struct {
	rng     *rand.Rand
	sb      strings.Builder
	schemas []string
	objects []string // names of object schemas (for allOf / oneOf)
	params  []string
	headers []string
	resps   []string
	bodies  []string
	schemes []string
	oauth   []string // oauth2 scheme names
	scopes  []string
	opSeq   int
	v2      bool
}

func (a *asm) n(lo, hi int) int { return lo + a.rng.Intn(hi-lo+1) }
func (a *asm) pick(xs []string) string {
	return xs[a.rng.Intn(len(xs))]
}
func (a *asm) coin() bool { return a.rng.Intn(2) == 0 }
func (a *asm) w(indent int, format string, args ...any) {
	a.sb.WriteString(strings.Repeat("  ", indent))
	fmt.Fprintf(&a.sb, format, args...)
	a.sb.WriteByte('\n')
}

var nameParts = []string{"Pet", "Order", "User", "Item", "Tag", "Node", "Link", "Shape", "Event", "Group", "Alpha", "Beta", "Zed", "Kind", "Data", "Meta"}

func (a *asm) name(prefix string, i int) string {
	return fmt.Sprintf("%s%s%d", prefix, a.pick(nameParts), i)
}

func (a *asm) primitive(indent int) {
	switch a.rng.Intn(7) {
	case 0:
		a.w(indent, "type: string")
		if a.coin() {
			a.w(indent, "pattern: %q", a.pick([]string{"^[a-z]+$", "^[A-Z][a-z0-9]*$", "^(?!x-)[a-z-]+$", "^\\d{3}$"}))
		}
		if a.coin() {
			a.w(indent, "default: d%d", a.rng.Intn(9))
		}
	case 1:
		a.w(indent, "type: string")
		a.w(indent, "enum: [%s]", strings.Join(a.enumVals(), ", "))
	case 2:
		a.w(indent, "type: integer")
		if a.coin() {
			a.w(indent, "minimum: %d", a.rng.Intn(5))
			a.w(indent, "maximum: %d", 100+a.rng.Intn(900))
		}
		if a.coin() {
			a.w(indent, "default: %d", 5+a.rng.Intn(50))
		}
	case 3:
		a.w(indent, "type: number")
		a.w(indent, "multipleOf: %s", a.pick([]string{"0.5", "0.25", "0.01", "3", "1.5"}))
	case 4:
		a.w(indent, "type: boolean")
		if a.coin() {
			a.w(indent, "nullable: true")
		}
	case 5:
		a.w(indent, "type: string")
		a.w(indent, "format: %s", a.pick([]string{"date-time", "date", "uuid", "uri", "byte", "email", "ipv4"}))
	default:
		a.w(indent, "type: array")
		a.w(indent, "items:")
		if len(a.schemas) > 0 && a.coin() {
			a.w(indent+1, "$ref: \"#/components/schemas/%s\"", a.pick(a.schemas))
		} else {
			a.w(indent+1, "type: %s", a.pick([]string{"string", "integer", "number"}))
		}
	}
}

func (a *asm) enumVals() []string {
	all := []string{"red", "green", "blue", "a-b", "A_B", "x1", "up", "down", "none", "zero"}
	a.rng.Shuffle(len(all), func(i, j int) { all[i], all[j] = all[j], all[i] })
	return all[:a.n(2, 5)]
}

func (a *asm) objectBody(indent int, allNames []string) {
	a.w(indent, "type: object")
	k := a.n(2, 6)
	var props []string
	for i := 0; i < k; i++ {
		props = append(props, fmt.Sprintf("%s%d", a.pick([]string{"id", "name", "kind", "size", "tags", "next", "meta", "val", "a_b", "A-b", "x"}), i))
	}
	// properties that refer to other schemas are never required (a required cycle is rejected by ogen)
	isRef := map[string]bool{}
	var req []string
	for _, p := range props {
		if len(allNames) > 0 && a.rng.Intn(4) == 0 {
			isRef[p] = true
		} else if a.rng.Intn(3) == 0 {
			req = append(req, p)
		}
	}
	if len(req) > 0 {
		a.w(indent, "required: [%s]", strings.Join(req, ", "))
	}
	a.w(indent, "properties:")
	for _, p := range props {
		a.w(indent+1, "%s:", p)
		if isRef[p] {
			a.w(indent+2, "$ref: \"#/components/schemas/%s\"", a.pick(allNames))
			if a.v2 && a.coin() {
				a.w(indent+2, "nullable: true")
				if a.coin() {
					a.w(indent+2, "description: written next to the reference")
				}
			}
		} else {
			a.primitive(indent + 2)
			a.doc2(indent + 2)
		}
	}
	switch a.rng.Intn(6) {
	case 0:
		a.w(indent, "additionalProperties: {type: %s}", a.pick([]string{"string", "integer"}))
	case 1:
		a.w(indent, "additionalProperties: true")
	case 2:
		a.w(indent, "patternProperties:")
		a.w(indent+1, "\"^x-\": {type: string}")
		a.w(indent+1, "\"^n[0-9]+$\": {type: string}")
		if a.coin() {
			a.w(indent+1, "\"^z_\": {type: string}")
		}
	}
}

func (a *asm) doc() string {
	a.w(0, "openapi: 3.1.0")
	a.w(0, "info:")
	a.w(1, "title: assembled")
	a.w(1, "version: \"1\"")
	if a.coin() {
		a.w(0, "servers:")
		for i, n := 0, a.n(1, 3); i < n; i++ {
			a.w(1, "- url: https://{region}.s%d.example.com/{base}", i)
			a.w(2, "x-ogen-server-name: Srv%d", i)
			a.w(2, "variables:")
			a.w(3, "region: {default: eu, enum: [eu, us, ap]}")
			a.w(3, "base: {default: v%d}", i)
		}
	}
	// names first, so that everything can refer to everything (cycles between schemas are fine)
	for i, n := 0, a.n(3, 9); i < n; i++ {
		a.schemas = append(a.schemas, a.name("", i))
	}
	nObj := a.n(2, len(a.schemas))
	a.objects = a.schemas[:nObj]
	for i, n := 0, a.n(0, 4); i < n; i++ {
		a.params = append(a.params, a.name("P", i))
	}
	for i, n := 0, a.n(0, 3); i < n; i++ {
		a.headers = append(a.headers, a.name("H", i))
	}
	for i, n := 0, a.n(0, 3); i < n; i++ {
		a.resps = append(a.resps, a.name("R", i))
	}
	for i, n := 0, a.n(0, 2); i < n; i++ {
		a.bodies = append(a.bodies, a.name("B", i))
	}
	kinds := []string{"keyH", "keyQ", "keyC", "basic", "bearer", "oauthA", "oauthB"}
	a.rng.Shuffle(len(kinds), func(i, j int) { kinds[i], kinds[j] = kinds[j], kinds[i] })
	a.schemes = kinds[:a.n(0, 5)]
	for _, s := range a.schemes {
		if strings.HasPrefix(s, "oauth") {
			a.oauth = append(a.oauth, s)
		}
	}
	a.scopes = []string{"read", "write", "admin", "a:b", "z"}

	if len(a.schemes) > 0 && a.coin() {
		a.w(0, "security:")
		a.security(1)
	}
	a.w(0, "paths:")
	for i, n := 0, a.n(2, 6); i < n; i++ {
		a.pathItem(i)
	}
	if a.rng.Intn(3) == 0 {
		a.w(0, "webhooks:")
		for i, n := 0, a.n(1, 3); i < n; i++ {
			a.w(1, "hook%s%d:", a.pick(nameParts), i)
			a.operation(2, "post", nil, true)
			if a.coin() {
				a.operation(2, "delete", nil, true)
			}
		}
	}
	a.w(0, "components:")
	if len(a.schemes) > 0 {
		a.w(1, "securitySchemes:")
		for _, s := range a.schemes {
			switch s {
			case "keyH":
				a.w(2, "keyH: {type: apiKey, in: header, name: X-Key}")
			case "keyQ":
				a.w(2, "keyQ: {type: apiKey, in: query, name: key}")
			case "keyC":
				a.w(2, "keyC: {type: apiKey, in: cookie, name: ck}")
			case "basic":
				a.w(2, "basic: {type: http, scheme: basic}")
			case "bearer":
				a.w(2, "bearer: {type: http, scheme: bearer}")
			default:
				a.w(2, "%s:", s)
				a.w(3, "type: oauth2")
				a.w(3, "flows:")
				a.w(4, "clientCredentials:")
				a.w(5, "tokenUrl: https://example.com/token")
				a.w(5, "scopes: {read: r, write: w, admin: a, \"a:b\": ab, z: z}")
				if a.coin() {
					a.w(4, "implicit:")
					a.w(5, "authorizationUrl: https://example.com/auth")
					a.w(5, "scopes: {read: r, write: w}")
				}
			}
		}
	}
	if len(a.params) > 0 {
		a.w(1, "parameters:")
		for i, p := range a.params {
			in := a.pick([]string{"query", "query", "header", "cookie"})
			a.w(2, "%s:", p)
			a.w(3, "name: %s%d", map[string]string{"query": "q", "header": "X-P", "cookie": "c"}[in], i)
			a.w(3, "in: %s", in)
			a.doc2(3)
			a.w(3, "schema:")
			a.primitiveScalar(4)
		}
	}
	if len(a.headers) > 0 {
		a.w(1, "headers:")
		for _, h := range a.headers {
			a.w(2, "%s:", h)
			if a.coin() {
				a.w(3, "required: true")
			}
			a.w(3, "schema:")
			a.primitiveScalar(4)
		}
	}
	if len(a.bodies) > 0 {
		a.w(1, "requestBodies:")
		for _, b := range a.bodies {
			a.w(2, "%s:", b)
			a.w(3, "required: true")
			a.content(3, true)
		}
	}
	if len(a.resps) > 0 {
		a.w(1, "responses:")
		for _, r := range a.resps {
			a.w(2, "%s:", r)
			a.responseBody(3)
		}
	}
	a.w(1, "schemas:")
	for i, s := range a.schemas {
		a.w(2, "%s:", s)
		a.doc2(3)
		switch {
		case i < nObj:
			a.objectBody(3, a.schemas)
		case a.rng.Intn(4) == 0:
			a.w(3, "type: string")
			a.w(3, "enum: [%s]", strings.Join(a.enumVals(), ", "))
		case a.rng.Intn(3) == 0 && nObj >= 2:
			// allOf merge with an inline part that overlaps
			a.w(3, "allOf:")
			a.w(4, "- $ref: \"#/components/schemas/%s\"", a.objects[0])
			a.w(4, "- type: object")
			a.w(5, "properties:")
			a.w(6, "extra%d: {type: string, default: e}", i)
			a.w(6, "more%d: {type: integer}", i)
		case nObj >= 2:
			// discriminated sum with several mapping keys per schema
			vs := append([]string(nil), a.objects...)
			a.rng.Shuffle(len(vs), func(i, j int) { vs[i], vs[j] = vs[j], vs[i] })
			vs = vs[:min(len(vs), a.n(2, 3))]
			a.w(3, "oneOf:")
			for _, v := range vs {
				a.w(4, "- $ref: \"#/components/schemas/%s\"", v)
			}
			a.w(3, "discriminator:")
			a.w(4, "propertyName: kind")
			a.w(4, "mapping:")
			for j, v := range vs {
				a.w(5, "k%d: \"#/components/schemas/%s\"", j, v)
				if a.coin() {
					a.w(5, "alt%d: \"#/components/schemas/%s\"", j, v)
				}
			}
		default:
			a.objectBody(3, nil)
		}
	}
	return a.sb.String()
}

func (a *asm) primitiveScalar(indent int) {
	switch a.rng.Intn(4) {
	case 0:
		a.w(indent, "type: string")
	case 1:
		a.w(indent, "type: integer")
		if a.coin() {
			a.w(indent, "default: %d", a.rng.Intn(50))
		}
	case 2:
		a.w(indent, "type: string")
		a.w(indent, "enum: [%s]", strings.Join(a.enumVals(), ", "))
	default:
		a.w(indent, "type: boolean")
	}
}

func (a *asm) security(indent int) {
	for i, n := 0, a.n(1, 3); i < n; i++ {
		first := true
		used := map[string]bool{}
		for j, m := 0, a.n(1, 2); j < m; j++ {
			s := a.pick(a.schemes)
			if used[s] {
				continue
			}
			used[s] = true
			sc := "[]"
			if strings.HasPrefix(s, "oauth") {
				sh := append([]string(nil), a.scopes...)
				a.rng.Shuffle(len(sh), func(i, j int) { sh[i], sh[j] = sh[j], sh[i] })
				var q []string
				for _, x := range sh[:a.n(1, 4)] {
					q = append(q, fmt.Sprintf("%q", x))
				}
				sc = "[" + strings.Join(q, ", ") + "]"
			}
			if first {
				a.w(indent, "- %s: %s", s, sc)
				first = false
			} else {
				a.w(indent, "  %s: %s", s, sc)
			}
		}
	}
}

func (a *asm) pathItem(i int) {
	segs := []string{"/pets", "/orders", "/users", "/a/b", "/x"}
	path := a.pick(segs) + fmt.Sprint(i)
	var pathParams []string
	for j, n := 0, a.rng.Intn(3); j < n; j++ {
		p := fmt.Sprintf("id%d", j)
		pathParams = append(pathParams, p)
		path += "/{" + p + "}"
		if a.coin() {
			path += "/sub"
		}
	}
	a.w(1, "%s:", path)
	inherit := a.coin()
	if inherit && (len(pathParams) > 0 || len(a.params) > 0) {
		a.w(2, "parameters:")
		for _, p := range pathParams {
			a.w(3, "- {name: %s, in: path, required: true, schema: {type: %s}}", p, a.pick([]string{"string", "integer"}))
		}
		for j, n := 0, a.n(0, 3); j < n; j++ {
			a.w(3, "- {name: inh%d, in: %s, schema: {type: string}}", j, a.pick([]string{"query", "header", "cookie"}))
		}
		for _, p := range a.params {
			if a.rng.Intn(3) == 0 {
				a.w(3, "- $ref: \"#/components/parameters/%s\"", p)
			}
		}
		pathParams = nil
	}
	methods := []string{"get", "post", "put", "delete", "patch"}
	a.rng.Shuffle(len(methods), func(i, j int) { methods[i], methods[j] = methods[j], methods[i] })
	for _, m := range methods[:a.n(1, 3)] {
		a.operation(2, m, pathParams, false)
	}
}

func (a *asm) operation(indent int, method string, pathParams []string, webhook bool) {
	a.opSeq++
	a.w(indent, "%s:", method)
	a.w(indent+1, "operationId: op%s%d", a.pick(nameParts), a.opSeq)
	a.doc2(indent + 1)
	if a.coin() {
		a.w(indent+1, "tags: [%s]", a.pick([]string{"pets", "store", "pets, store", "z"}))
	}
	if a.coin() && !webhook {
		a.w(indent+1, "x-ogen-operation-group: %s", a.pick([]string{"GroupA", "GroupB", "Zeta"}))
	}
	if len(a.schemes) > 0 && a.rng.Intn(3) == 0 {
		a.w(indent+1, "security:")
		a.security(indent + 2)
	}
	if len(pathParams) > 0 || a.coin() {
		a.w(indent+1, "parameters:")
		for _, p := range pathParams {
			a.w(indent+2, "- {name: %s, in: path, required: true, schema: {type: %s}}", p, a.pick([]string{"string", "integer"}))
		}
		for j, n := 0, a.n(0, 3); j < n; j++ {
			a.w(indent+2, "- {name: p%d_%d, in: %s, schema: {type: %s}}", a.opSeq, j, a.pick([]string{"query", "header", "cookie"}), a.pick([]string{"string", "integer", "boolean"}))
		}
		seen := map[string]bool{}
		for _, p := range a.params {
			if a.rng.Intn(3) == 0 && !seen[p] {
				seen[p] = true
				a.w(indent+2, "- $ref: \"#/components/parameters/%s\"", p)
			}
		}
		if len(pathParams) == 0 && a.sb.String()[a.sb.Len()-12:] == "parameters:\n" {
			a.w(indent+2, "- {name: only%d, in: query, schema: {type: string}}", a.opSeq)
		}
	}
	if method != "get" && method != "delete" {
		if len(a.bodies) > 0 && a.coin() {
			a.w(indent+1, "requestBody:")
			a.w(indent+2, "$ref: \"#/components/requestBodies/%s\"", a.pick(a.bodies))
		} else {
			a.w(indent+1, "requestBody:")
			a.w(indent+2, "required: true")
			a.content(indent+2, true)
		}
	}
	a.w(indent+1, "responses:")
	codes := []string{"\"200\"", "\"201\"", "\"204\"", "\"404\"", "4XX", "5XX", "default"}
	a.rng.Shuffle(len(codes), func(i, j int) { codes[i], codes[j] = codes[j], codes[i] })
	for _, c := range codes[:a.n(1, 4)] {
		a.w(indent+2, "%s:", c)
		if len(a.resps) > 0 && a.rng.Intn(3) == 0 {
			a.w(indent+3, "$ref: \"#/components/responses/%s\"", a.pick(a.resps))
		} else {
			a.responseBody(indent + 3)
		}
	}
}

func (a *asm) responseBody(indent int) {
	a.w(indent, "description: d")
	if a.coin() {
		a.w(indent, "headers:")
		names := []string{"X-Rate", "X-Count", "ETag", "Location", "X-Req-Id", "X-Alpha", "X-Beta"}
		if a.v2 {
			names = append(names, "X-Req_Id", "X-ReqId", "X-Rate-Limit", "X-RateLimit", "X-Al-Pha")
		}
		a.rng.Shuffle(len(names), func(i, j int) { names[i], names[j] = names[j], names[i] })
		hi := 3
		if a.v2 {
			hi = 5
		}
		for _, n := range names[:a.n(1, hi)] {
			if len(a.headers) > 0 && a.coin() {
				a.w(indent+1, "%s: {$ref: \"#/components/headers/%s\"}", n, a.pick(a.headers))
			} else {
				a.w(indent+1, "%s: {schema: {type: %s}}", n, a.pick([]string{"string", "integer"}))
			}
		}
	}
	if a.rng.Intn(4) != 0 {
		a.content(indent, false)
	}
}

func (a *asm) content(indent int, request bool) {
	a.w(indent, "content:")
	// several media types only within the structured family; a raw one stands alone (mixing them in one
	// message runs into unimplemented encoders, which is not what this workload is after)
	types := []string{"application/json", "application/json"}
	if request {
		types = append(types, "application/x-www-form-urlencoded", "multipart/form-data")
	}
	a.rng.Shuffle(len(types), func(i, j int) { types[i], types[j] = types[j], types[i] })
	types = types[:a.n(1, min(3, len(types)))]
	if request && a.rng.Intn(6) == 0 {
		types = []string{a.pick([]string{"text/plain", "application/octet-stream"})}
	}
	seen := map[string]bool{}
	for _, t := range types {
		if seen[t] {
			continue
		}
		seen[t] = true
		a.w(indent+1, "%s:", t)
		a.w(indent+2, "schema:")
		switch t {
		case "text/plain":
			a.w(indent+3, "type: string")
		case "application/octet-stream":
			a.w(indent+3, "type: string")
			a.w(indent+3, "format: binary")
		case "application/x-www-form-urlencoded", "multipart/form-data":
			a.w(indent+3, "type: object")
			a.w(indent+3, "properties:")
			a.w(indent+4, "f1: {type: string}")
			a.w(indent+4, "f2: {type: integer, default: 2}")
			if t == "multipart/form-data" {
				a.w(indent+4, "file: {type: string, format: binary}")
			}
		default:
			if a.rng.Intn(5) == 0 {
				a.w(indent+3, "type: array")
				a.w(indent+3, "items:")
				a.w(indent+4, "$ref: \"#/components/schemas/%s\"", a.pick(a.schemas))
			} else {
				a.w(indent+3, "$ref: \"#/components/schemas/%s\"", a.pick(a.schemas))
			}
		}
	}
}
