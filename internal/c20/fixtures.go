package c20

// Invocation fixtures for C20: each describes how the CLI is invoked (arguments, config, spec,
// auxiliary files in the working directory) and which pre-write failure stage it is meant to hit.
// Whether a fixture really fails with the tree under test is established by a reference run into an
// empty target, never assumed (see refRun).

// Fixture is one way to invoke the generator.
type Fixture struct {
	Name   string            `json:"name"`
	Stage  string            `json:"stage"`             // flag config spec-read syntax validation not-implemented ir route proceed
	Spec   string            `json:"spec,omitempty"`    // content of the spec file ("" = none written)
	SpecAs string            `json:"spec_as,omitempty"` // file name of the spec (default spec.yml)
	Arg    string            `json:"arg,omitempty"`     // positional argument (default: the spec file name); "-" = none
	Config string            `json:"config,omitempty"`  // content of ogen.yml passed with --config ("" = no --config)
	CfgArg string            `json:"cfg_arg,omitempty"` // value for --config when it is not the written ogen.yml
	Flags  []string          `json:"flags,omitempty"`   // extra flags before the positional argument
	Files  map[string]string `json:"files,omitempty"`   // extra files in the working directory ("dir/" = directory, "a->b" = symlink)
	Fails  bool              `json:"fails"`             // intended to be a pre-write failure
	// MustFail: the property's statement itself names this class of input as a failure before writing ("unreadable or
	// invalid config, unreadable, malformed or unsupported spec, routing conflict"). For the other fixtures the tree
	// under test decides whether the input is acceptable; for these a tree that proceeds (exit 0) violates the property.
	MustFail bool `json:"must_fail,omitempty"`
}

const specHead = `openapi: 3.0.3
info:
  title: t
  version: "1"
`

const smallSpec = specHead + `paths:
  /pets/{id}:
    get:
      operationId: getPet
      parameters:
        - name: id
          in: path
          required: true
          schema: {type: integer}
      responses:
        "200":
          description: ok
          content:
            application/json:
              schema:
                $ref: "#/components/schemas/Pet"
components:
  schemas:
    Pet:
      type: object
      required: [name]
      properties:
        name: {type: string, minLength: 1}
        tag: {type: string, default: none}
`

// largeSpec generates more files than smallSpec (security, webhooks, servers, defaults, validators,
// uri object parameters), so that a previous generation of it leaves stale files behind.
const largeSpec = `openapi: 3.1.0
info:
  title: t
  version: "1"
` + `servers:
  - url: https://{region}.example.com/v1
    variables:
      region: {default: eu}
security:
  - key: []
paths:
  /pets:
    get:
      operationId: listPets
      parameters:
        - name: filter
          in: query
          style: deepObject
          schema:
            type: object
            properties:
              kind: {type: string}
              age: {type: integer}
        - name: limit
          in: query
          schema: {type: integer, default: 10, maximum: 100}
      responses:
        "200":
          description: ok
          content:
            application/json:
              schema:
                type: array
                items: {$ref: "#/components/schemas/Pet"}
        default:
          description: err
          content:
            application/json:
              schema: {$ref: "#/components/schemas/Error"}
    post:
      operationId: addPet
      requestBody:
        required: true
        content:
          application/json:
            schema: {$ref: "#/components/schemas/Pet"}
      responses:
        "200":
          description: ok
          content:
            application/json:
              schema:
                oneOf:
                  - $ref: "#/components/schemas/Pet"
                  - $ref: "#/components/schemas/Error"
webhooks:
  petAdded:
    post:
      operationId: petAdded
      requestBody:
        content:
          application/json:
            schema: {$ref: "#/components/schemas/Pet"}
      responses:
        "200": {description: ok}
components:
  securitySchemes:
    key:
      type: apiKey
      in: header
      name: X-Key
  schemas:
    Pet:
      type: object
      required: [name]
      properties:
        name: {type: string, minLength: 1, pattern: "^[a-z]+$"}
        tag: {type: string, default: none}
    Error:
      type: object
      required: [code]
      properties:
        code: {type: integer}
`

func opSpec(paths string) string { return specHead + "paths:\n" + paths }

const okResp = `      responses:
        "200": {description: ok}
`

// Fixtures is the enumerated list of invocations.
var Fixtures = []Fixture{
	// ---- generation proceeds
	{Name: "ok/small", Stage: "proceed", Spec: smallSpec},
	{Name: "ok/small-json-config", Stage: "proceed", Spec: smallSpec, Config: "generator:\n  features:\n    enable: [\"debug/example_tests\"]\n"},
	{Name: "ok/large", Stage: "proceed", Spec: largeSpec},
	{Name: "ok/client-only", Stage: "proceed", Spec: largeSpec, Config: "generator:\n  features:\n    disable: [\"paths/server\", \"webhooks/server\"]\n"},

	// ---- flag stage
	{Name: "flag/unknown", Stage: "flag", Spec: smallSpec, Flags: []string{"--no-such-flag"}, Fails: true},
	{Name: "flag/no-spec-argument", Stage: "flag", Spec: smallSpec, Arg: "-", Fails: true},
	{Name: "flag/bad-bool", Stage: "flag", Spec: smallSpec, Flags: []string{"--clean=maybe"}, Fails: true},
	{Name: "flag/bad-loglevel", Stage: "flag", Spec: smallSpec, Flags: []string{"--loglevel", "loud"}, Fails: true},
	{Name: "flag/cpuprofile-unwritable", Stage: "flag", Spec: smallSpec, Flags: []string{"--cpuprofile", "nodir/x.prof"}, Fails: true},

	// ---- config stage
	{Name: "config/missing", Stage: "config", Spec: smallSpec, CfgArg: "nope.yml", Fails: true, MustFail: true},
	{Name: "config/is-directory", Stage: "config", Spec: smallSpec, CfgArg: "cfgdir", Files: map[string]string{"cfgdir/": ""}, Fails: true, MustFail: true},
	{Name: "config/symlink-loop", Stage: "config", Spec: smallSpec, CfgArg: "loop.yml", Files: map[string]string{"loop.yml->loop2.yml": "", "loop2.yml->loop.yml": ""}, Fails: true, MustFail: true},
	{Name: "config/bad-yaml", Stage: "config", Spec: smallSpec, Config: "generator: [unclosed\n", Fails: true, MustFail: true},
	{Name: "config/not-a-mapping", Stage: "config", Spec: smallSpec, Config: "- a\n- b\n", Fails: true, MustFail: true},
	{Name: "config/unknown-field", Stage: "config", Spec: smallSpec, Config: "generatorr:\n  features: {}\n", Fails: true, MustFail: true},
	{Name: "config/unknown-nested-field", Stage: "config", Spec: smallSpec, Config: "generator:\n  featurez: {}\n", Fails: true, MustFail: true},
	{Name: "config/option-at-wrong-level", Stage: "config", Spec: smallSpec, Config: "ignore_not_implemented: [\"all\"]\n", Fails: true, MustFail: true},
	{Name: "config/unknown-field-after-valid-ones", Stage: "config", Spec: smallSpec, Config: "generator:\n  features:\n    enable: [\"debug/example_tests\"]\n  ignore_not_implemented: [\"all\"]\nparser:\n  infer_types: true\n  alow_remote: true\n", Fails: true, MustFail: true},
	{Name: "config/bad-filter-regex", Stage: "config", Spec: smallSpec, Config: "generator:\n  filters:\n    path_regex: \"(\"\n", Fails: true},
	{Name: "config/bad-convenient-errors", Stage: "config", Spec: smallSpec, Config: "generator:\n  convenient_errors: maybe\n", Fails: true},
	{Name: "config/unknown-feature-enable", Stage: "config", Spec: smallSpec, Config: "generator:\n  features:\n    enable: [\"paths/clinet\"]\n", Fails: true},
	{Name: "config/unknown-feature-disable", Stage: "config", Spec: smallSpec, Config: "generator:\n  features:\n    disable: [\"paths/sever\"]\n", Fails: true},
	{Name: "config/wrong-type", Stage: "config", Spec: smallSpec, Config: "parser:\n  depth_limit: many\n", Fails: true, MustFail: true},
	{Name: "config/implicit-ogen-yml-is-directory", Stage: "config", Spec: smallSpec, Files: map[string]string{"ogen.yml/": ""}, Fails: true, MustFail: true},
	{Name: "config/implicit-unreadable-before-valid", Stage: "config", Spec: smallSpec, Files: map[string]string{"ogen.yml/": "", ".ogen.yaml": "generator:\n  features:\n    enable: [\"debug/example_tests\"]\n"}, Fails: true, MustFail: true},
	{Name: "config/implicit-ogen-yml-bad", Stage: "config", Spec: smallSpec, Files: map[string]string{"ogen.yml": "generator: [unclosed\n"}, Fails: true, MustFail: true},

	// ---- spec read stage
	{Name: "spec/missing", Stage: "spec-read", Arg: "nothere.yml", Fails: true, MustFail: true},
	{Name: "spec/is-directory", Stage: "spec-read", Arg: "specdir", Files: map[string]string{"specdir/": ""}, Fails: true, MustFail: true},
	{Name: "spec/symlink-loop", Stage: "spec-read", Arg: "sl.yml", Files: map[string]string{"sl.yml->sl2.yml": "", "sl2.yml->sl.yml": ""}, Fails: true, MustFail: true},
	{Name: "spec/unsupported-scheme", Stage: "spec-read", Arg: "ftp://example.invalid/spec.yml", Fails: true, MustFail: true},
	{Name: "spec/unreachable-url", Stage: "spec-read", Arg: "http://127.0.0.1:1/spec.yml", Fails: true, MustFail: true},
	{Name: "spec/bad-file-url", Stage: "spec-read", Arg: "file://remotehost/spec.yml", Fails: true, MustFail: true},

	// ---- syntax stage
	{Name: "syntax/yaml-error", Stage: "syntax", Spec: "openapi: 3.0.3\ninfo: [unclosed\n", Fails: true, MustFail: true},
	{Name: "syntax/json-error", Stage: "syntax", SpecAs: "spec.json", Spec: "{\"openapi\": \"3.0.3\", \"info\": {", Fails: true, MustFail: true},
	{Name: "syntax/empty", Stage: "syntax", Spec: "\n", Fails: true, MustFail: true},
	{Name: "syntax/binary", Stage: "syntax", Spec: "\x00\x01\x02\xff\xfe garbage \x00", Fails: true, MustFail: true},
	{Name: "syntax/scalar", Stage: "syntax", Spec: "just a string\n", Fails: true, MustFail: true},
	{Name: "syntax/tab-indent", Stage: "syntax", Spec: "openapi: 3.0.3\ninfo:\n\ttitle: t\n", Fails: true},

	// ---- validation stage
	{Name: "invalid/no-version", Stage: "validation", Spec: "info:\n  title: t\n  version: \"1\"\npaths: {}\n", Fails: true, MustFail: true},
	{Name: "invalid/swagger2", Stage: "validation", Spec: "swagger: \"2.0\"\ninfo:\n  title: t\n  version: \"1\"\npaths: {}\n", Fails: true, MustFail: true},
	{Name: "invalid/dangling-ref", Stage: "validation", Spec: opSpec("  /a:\n    get:\n      operationId: a\n      responses:\n        \"200\":\n          $ref: \"#/components/responses/Nope\"\n"), Fails: true},
	{Name: "invalid/dangling-file-ref", Stage: "validation", Spec: opSpec("  /a:\n    get:\n      operationId: a\n      responses:\n        \"200\":\n          description: ok\n          content:\n            application/json:\n              schema:\n                $ref: \"other.yml#/X\"\n"), Fails: true},
	{Name: "invalid/duplicate-operation-id", Stage: "validation", Spec: opSpec("  /a:\n    get:\n      operationId: same\n" + okResp + "  /b:\n    get:\n      operationId: same\n" + okResp), Fails: true},
	{Name: "invalid/duplicate-templated-path", Stage: "validation", Spec: opSpec("  /a/{x}:\n    get:\n      operationId: a\n      parameters:\n        - {name: x, in: path, required: true, schema: {type: string}}\n" + okResp + "  /a/{y}:\n    get:\n      operationId: b\n      parameters:\n        - {name: y, in: path, required: true, schema: {type: string}}\n" + okResp), Fails: true},
	{Name: "invalid/bad-path-template", Stage: "validation", Spec: opSpec("  /a/{x:\n    get:\n      operationId: a\n" + okResp), Fails: true},
	{Name: "invalid/path-param-not-declared", Stage: "validation", Spec: opSpec("  /a/{x}:\n    get:\n      operationId: a\n" + okResp), Fails: true},
	{Name: "invalid/no-leading-slash", Stage: "validation", Spec: opSpec("  a/b:\n    get:\n      operationId: a\n" + okResp), Fails: true},
	{Name: "invalid/bad-status-code", Stage: "validation", Spec: opSpec("  /a:\n    get:\n      operationId: a\n      responses:\n        \"9999\": {description: ok}\n"), Fails: true},
	{Name: "invalid/no-responses", Stage: "validation", Spec: opSpec("  /a:\n    get:\n      operationId: a\n      responses: {}\n"), Fails: true},
	{Name: "invalid/cyclic-response-ref", Stage: "validation", Spec: opSpec("  /a:\n    get:\n      operationId: a\n      responses:\n        \"200\":\n          $ref: \"#/components/responses/A\"\n") + "components:\n  responses:\n    A:\n      $ref: \"#/components/responses/B\"\n    B:\n      $ref: \"#/components/responses/A\"\n", Fails: true},
	{Name: "invalid/bad-schema-type", Stage: "validation", Spec: opSpec("  /a:\n    get:\n      operationId: a\n      responses:\n        \"200\":\n          description: ok\n          content:\n            application/json:\n              schema: {type: integr}\n"), Fails: true},
	{Name: "invalid/duplicate-enum", Stage: "validation", Spec: opSpec("  /a:\n    get:\n      operationId: a\n      responses:\n        \"200\":\n          description: ok\n          content:\n            application/json:\n              schema: {type: string, enum: [a, a]}\n"), Fails: true},
	{Name: "invalid/bad-pattern", Stage: "validation", Spec: opSpec("  /a:\n    get:\n      operationId: a\n      responses:\n        \"200\":\n          description: ok\n          content:\n            application/json:\n              schema: {type: string, pattern: \"(\"}\n"), Fails: true},
	{Name: "invalid/bad-param-style", Stage: "validation", Spec: opSpec("  /a:\n    get:\n      operationId: a\n      parameters:\n        - {name: q, in: query, style: matrix, schema: {type: string}}\n" + okResp), Fails: true},
	{Name: "invalid/duplicate-parameter", Stage: "validation", Spec: opSpec("  /a:\n    get:\n      operationId: a\n      parameters:\n        - {name: q, in: query, schema: {type: string}}\n        - {name: q, in: query, schema: {type: string}}\n" + okResp), Fails: true},

	// ---- not implemented stage
	{Name: "notimpl/space-delimited", Stage: "not-implemented", Spec: opSpec("  /a:\n    get:\n      operationId: a\n      parameters:\n        - {name: q, in: query, style: spaceDelimited, schema: {type: array, items: {type: string}}}\n" + okResp), Fails: true},
	{Name: "notimpl/http-digest-security", Stage: "not-implemented", Spec: opSpec("  /a:\n    get:\n      operationId: a\n      security:\n        - d: []\n"+okResp) + "components:\n  securitySchemes:\n    d: {type: http, scheme: digest}\n", Fails: true},
	{Name: "notimpl/complex-form", Stage: "not-implemented", Spec: opSpec("  /a:\n    post:\n      operationId: a\n      requestBody:\n        content:\n          application/x-www-form-urlencoded:\n            schema: {type: array, items: {type: string}}\n" + okResp), Fails: true},
	{Name: "notimpl/unsupported-content-type", Stage: "not-implemented", Spec: opSpec("  /a:\n    post:\n      operationId: a\n      requestBody:\n        content:\n          application/x-weird:\n            schema: {type: object, properties: {a: {type: string}}}\n" + okResp), Fails: true},
	{Name: "notimpl/object-default", Stage: "not-implemented", Spec: opSpec("  /a:\n    post:\n      operationId: a\n      requestBody:\n        content:\n          application/json:\n            schema:\n              type: object\n              properties:\n                o: {type: object, default: {a: 1}, properties: {a: {type: integer}}}\n" + okResp), Fails: true},

	// ---- IR build stage
	{Name: "ir/wrong-default-type", Stage: "ir", Spec: opSpec("  /a:\n    post:\n      operationId: a\n      requestBody:\n        content:\n          application/json:\n            schema:\n              type: object\n              properties:\n                n: {type: integer, default: \"str\"}\n" + okResp), Fails: true},
	{Name: "ir/type-name-conflict", Stage: "ir", Spec: opSpec("  /a:\n    get:\n      operationId: a\n      responses:\n        \"200\":\n          description: ok\n          content:\n            application/json:\n              schema: {$ref: \"#/components/schemas/Foo_Bar\"}\n  /b:\n    get:\n      operationId: b\n      responses:\n        \"200\":\n          description: ok\n          content:\n            application/json:\n              schema: {$ref: \"#/components/schemas/FooBar\"}\n") + "components:\n  schemas:\n    Foo_Bar: {type: object, properties: {a: {type: string}}}\n    FooBar: {type: object, properties: {b: {type: integer}}}\n", Fails: true},
	{Name: "ir/allof-type-mismatch", Stage: "ir", Spec: opSpec("  /a:\n    get:\n      operationId: a\n      responses:\n        \"200\":\n          description: ok\n          content:\n            application/json:\n              schema:\n                allOf:\n                  - {type: string}\n                  - {type: integer}\n"), Fails: true},
	{Name: "ir/oneof-same-type", Stage: "ir", Spec: opSpec("  /a:\n    get:\n      operationId: a\n      responses:\n        \"200\":\n          description: ok\n          content:\n            application/json:\n              schema:\n                oneOf:\n                  - {type: string, minLength: 1}\n                  - {type: string, maxLength: 5}\n"), Fails: true},
	{Name: "ir/depth-limit", Stage: "ir", Spec: smallSpec, Config: "parser:\n  depth_limit: 1\n", Fails: true},
	{Name: "ir/convenient-errors-forced-no-default", Stage: "ir", Spec: smallSpec, Config: "generator:\n  convenient_errors: \"on\"\n", Fails: true},
	{Name: "ir/expand-unwritable", Stage: "ir", Spec: smallSpec, Config: "expand: notadir/expanded.yml\n", Files: map[string]string{"notadir": "a file, not a directory\n"}, Fails: true},

	// ---- route build stage
	{Name: "route/two-parameters-in-a-row", Stage: "route", Spec: opSpec("  /root/{a}{b}:\n    get:\n      operationId: a\n      parameters:\n        - {name: a, in: path, required: true, schema: {type: string}}\n        - {name: b, in: path, required: true, schema: {type: string}}\n" + okResp), Fails: true, MustFail: true},
	{Name: "route/two-parameters-in-a-row-last-operation", Stage: "route", Spec: opSpec("  /a:\n    get:\n      operationId: a\n" + okResp + "  /b/{x}:\n    get:\n      operationId: b\n      parameters:\n        - {name: x, in: path, required: true, schema: {type: string}}\n" + okResp + "  /z/pre{a}{b}/tail:\n    get:\n      operationId: z\n      parameters:\n        - {name: a, in: path, required: true, schema: {type: string}}\n        - {name: b, in: path, required: true, schema: {type: integer}}\n" + okResp), Fails: true, MustFail: true},
}
