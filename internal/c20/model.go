package c20

import (
	"crypto/sha256"
	"encoding/hex"
	"fmt"
	"path"
	"sort"
	"strings"

	"verif/internal/snap"
)

// The reference model of the directory, written from the property statement (not from cleanDir):
//
//	pre-write failure  =>  exit != 0 and the whole sandbox is untouched (nothing created, modified,
//	                       removed, retyped, chmod-ed or rewritten in place);
//	generation proceeds => the target directory is created if absent (with parents); when --clean is
//	                       given, direct non-directory entries of the target whose name matches the
//	                       generator's own pattern (prefix oas|openapi, suffix _gen.go|_gen_test.go) are
//	                       removed; the generator's files are written; everything else is untouched;
//	fault in the clean/write phase => only paths the generator owns may differ.

func hashBytes(b []byte) string {
	h := sha256.Sum256(b)
	return hex.EncodeToString(h[:])[:24]
}

// resolve follows symlinks of the sandbox snapshot (paths relative to the sandbox root) lexically.
// It returns the resolved path and whether resolution stayed inside the snapshot.
func resolve(t snap.Tree, p string, depth int) (string, bool) {
	if depth > 20 {
		return p, false
	}
	p = path.Clean(p)
	if strings.HasPrefix(p, "..") || strings.HasPrefix(p, "/") {
		return p, false
	}
	parts := strings.Split(p, "/")
	cur := "."
	for i, part := range parts {
		if part == "." {
			continue
		}
		next := part
		if cur != "." {
			next = cur + "/" + part
		}
		if e, ok := t[next]; ok && e.Type == "symlink" {
			tgt := e.Link
			if !strings.HasPrefix(tgt, "/") {
				tgt = path.Join(path.Dir(next), tgt)
			}
			rest := strings.Join(parts[i+1:], "/")
			return resolve(t, path.Join(tgt, rest), depth+1)
		}
		cur = next
	}
	return cur, true
}

// Expect computes the model's after-tree for a proceeding generation without faults, and the set of
// paths the generator owns (may write or remove). ok=false means the model predicts a failure before
// writing (target or a parent is not a directory).
func Expect(before snap.Tree, targetRel string, clean bool, ref []RefFile) (after snap.Tree, owned map[string]bool, ok bool) {
	after = snap.Tree{}
	for k, v := range before {
		after[k] = v
	}
	owned = map[string]bool{}
	T, inside := resolve(before, targetRel, 0)
	if !inside {
		return after, owned, false
	}
	if e, exists := before[T]; exists {
		if e.Type != "dir" {
			return after, owned, false
		}
	} else {
		// MkdirAll(target, 0750): every missing component becomes a directory.
		parts := strings.Split(T, "/")
		cur := ""
		for _, p := range parts {
			if cur == "" {
				cur = p
			} else {
				cur = cur + "/" + p
			}
			e, exists := before[cur]
			if exists && e.Type != "dir" {
				return after, owned, false
			}
			if !exists {
				after[cur] = snap.Entry{Type: "dir", Mode: 0o750}
				owned[cur] = true
			}
		}
	}
	if clean {
		for p, e := range before {
			if p == "." || path.Dir(p) != T || e.Type == "dir" {
				continue
			}
			if IsOwn(path.Base(p)) {
				delete(after, p)
				owned[p] = true
			}
		}
	}
	for _, f := range ref {
		p := f.Name
		if T != "." {
			p = T + "/" + f.Name
		}
		owned[p] = true
		ne := snap.Entry{Type: "file", Mode: 0o644, Size: int64(len(f.Data)), Hash: hashBytes(f.Data)}
		if e, exists := after[p]; exists {
			switch e.Type {
			case "file":
				ne.Mode = e.Mode
			case "symlink":
				// os.WriteFile follows the link the user put under the generator's own name.
				rp, in := resolve(after, p, 0)
				if !in {
					continue
				}
				owned[rp] = true
				if re, ok := after[rp]; ok {
					if re.Type != "file" {
						continue
					}
					ne.Mode = re.Mode
				}
				after[rp] = ne
				continue
			default:
				continue // directory in the way: a write-phase fault, judged by the relaxed rule
			}
		}
		after[p] = ne
	}
	return after, owned, true
}

// judgeUntouched: the pre-write failure rule.
func judgeUntouched(before, after snap.Tree) []string {
	var out []string
	for _, c := range snap.Diff(before, after, true) {
		out = append(out, c.String())
	}
	return out
}

// judgeExact: the proceeding rule. Content must equal the model; paths the generator does not own must
// not even be rewritten in place.
func judgeExact(before, expected, after snap.Tree, owned map[string]bool) []string {
	var out []string
	for _, c := range snap.Diff(expected, after, false) {
		if owned[c.Path] {
			// what the generator does to the mode of its own files, and whether it writes through a symlink
			// the user put under one of its own names or replaces it, is not part of the property
			if c.Kind == "chmod" {
				continue
			}
			b, was := before[c.Path]
			if was && b.Type == "symlink" && c.Kind == "retyped" && c.After != nil && c.After.Type == "file" {
				continue
			}
			if was && c.Kind == "modified" && c.After != nil && c.After.Hash == b.Hash && c.After.Type == b.Type {
				continue // the link's target left as it was (the link itself was replaced)
			}
		}
		switch c.Kind {
		case "created":
			out = append(out, "unexpected "+c.Path)
		case "removed":
			if _, was := before[c.Path]; was {
				out = append(out, "removed "+c.Path)
			} else {
				out = append(out, "not written "+c.Path)
			}
		default:
			out = append(out, c.Kind+" "+c.Path)
		}
	}
	out = append(out, rewrittenUnowned(before, after, owned)...)
	sort.Strings(out)
	return out
}

func rewrittenUnowned(before, after snap.Tree, owned map[string]bool) []string {
	var out []string
	for p, b := range before {
		a, ok := after[p]
		if !ok || owned[p] || b.Type != "file" || a.Type != "file" {
			continue
		}
		if (a.MTime != b.MTime || a.Ino != b.Ino) && a.Hash == b.Hash {
			out = append(out, "rewritten "+p)
		}
	}
	return out
}

// judgeRelaxed: a fault hit the clean/write phase (or a system call failed somewhere). Paths the
// generator owns may be in any state; new regular files may appear directly inside the target;
// `<own file>.dump` may appear in the working directory; the
// target directory and its missing parents may or may not have been created. Everything else is untouched.
func judgeRelaxed(before, after snap.Tree, owned map[string]bool, cwd string, ref []RefFile, target string) []string {
	dump := map[string]bool{}
	for _, f := range ref {
		p := f.Name + ".dump"
		if cwd != "." {
			p = cwd + "/" + p
		}
		dump[p] = true
	}
	var out []string
	for _, c := range snap.Diff(before, after, true) {
		if owned[c.Path] || (c.Kind == "created" && dump[c.Path]) {
			continue
		}
		// a new regular file directly inside the target (a half-written or temporary file of an interrupted
		// write phase) is the generator's own business; anything it did not create is not
		if c.Kind == "created" && c.After != nil && c.After.Type == "file" && path.Dir(c.Path) == target {
			continue
		}
		out = append(out, c.String())
	}
	return out
}

func describeChanges(cs []string, n int) string {
	if len(cs) > n {
		return fmt.Sprintf("%s … +%d more", strings.Join(cs[:n], "; "), len(cs)-n)
	}
	return strings.Join(cs, "; ")
}
