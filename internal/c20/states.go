package c20

import (
	"fmt"
	"math/rand"
	"os"
	"path/filepath"
	"sort"
	"strings"
)

// RefFile is one file of a reference generation.
type RefFile struct {
	Name string
	Data []byte
}

// builder creates a target-directory state inside a sandbox.
type builder struct {
	sb      string // sandbox root; work/ is the cwd, outside/ holds what symlinks point at
	target  string // target argument, relative to work/
	prevGen []RefFile
	stale   []RefFile // files of a larger previous generation
	rng     *rand.Rand
	err     error
}

func (b *builder) abs(rel string) string { return filepath.Join(b.sb, "work", rel) }
func (b *builder) tgt(rel string) string { return filepath.Join(b.sb, "work", b.target, rel) }

func (b *builder) mkdir(abs string, mode os.FileMode) {
	if b.err != nil {
		return
	}
	if err := os.MkdirAll(abs, 0o755); err != nil {
		b.err = err
		return
	}
	b.err = os.Chmod(abs, mode)
}

func (b *builder) write(abs string, data string, mode os.FileMode) {
	if b.err != nil {
		return
	}
	if err := os.MkdirAll(filepath.Dir(abs), 0o755); err != nil {
		b.err = err
		return
	}
	if err := os.WriteFile(abs, []byte(data), 0o644); err != nil {
		b.err = err
		return
	}
	b.err = os.Chmod(abs, mode)
}

func (b *builder) symlink(target, abs string) {
	if b.err != nil {
		return
	}
	if err := os.MkdirAll(filepath.Dir(abs), 0o755); err != nil {
		b.err = err
		return
	}
	b.err = os.Symlink(target, abs)
}

func (b *builder) gen(files []RefFile, mode os.FileMode) {
	for _, f := range files {
		b.write(b.tgt(f.Name), string(f.Data), mode)
	}
}

func user(name string) string { return "// user file " + name + "\npackage api\n" }

// State is a named target-directory state.
type State struct {
	Name   string
	Target string // target argument relative to the working directory
	Build  func(b *builder)
	// DirInTheWay: the state puts a directory where the generator writes a file, i.e. a write-phase fault.
	DirInTheWay bool
	Thorough    bool // only in the thorough tier
}

// Lookalikes are user file names near the generator's naming pattern (prefix oas|openapi, suffix
// _gen.go|_gen_test.go); Own says whether the name matches that pattern.
var lookPrefixes = []string{"oas", "openapi", "Oas", "OAS", "xoas", "my_oas", "oa", "openap", "OpenAPI", ""}
var lookMiddles = []string{"_x", "", "_a_b"}
var lookSuffixes = []string{"_gen.go", "_gen_test.go", "_gen.go.bak", "_gen.go~", "_gen.txt", ".go", "_gen.GO", "_gen.goo", "_gen_tests.go", "_gen_test.go.orig", "_Gen.go", "gen.go", "_gen", "_test.go"}

// IsOwn is the generator's own naming pattern as the property states it.
func IsOwn(name string) bool {
	return (strings.HasPrefix(name, "oas") || strings.HasPrefix(name, "openapi")) &&
		(strings.HasSuffix(name, "_gen.go") || strings.HasSuffix(name, "_gen_test.go"))
}

func lookalikeNames() []string {
	seen := map[string]bool{}
	var out []string
	for _, p := range lookPrefixes {
		for _, m := range lookMiddles {
			for _, s := range lookSuffixes {
				n := p + m + s
				if n == "" || n == "." || seen[n] {
					continue
				}
				seen[n] = true
				out = append(out, n)
			}
		}
	}
	out = append(out, " oas_sp_gen.go", "oas_sp_gen.go ", "oasé_gen.go", "оas_cyr_gen.go", ".oas_hidden_gen.go", ".ogen.yml", ".ogen.yaml", ".ogen.bak", "ogen.yaml.orig", ".gitignore", ".oas", "oas_gen.go", "oasis_gen.go", "openapi_gen_test.go", "README.md", "doc.go", "Makefile")
	sort.Strings(out)
	return out
}

func outside(b *builder) {
	b.write(filepath.Join(b.sb, "outside", "linked.go"), user("outside/linked.go"), 0o644)
	b.write(filepath.Join(b.sb, "outside", "other.go"), user("outside/other.go"), 0o600)
	b.write(filepath.Join(b.sb, "outside", "dir", "keep.txt"), "keep\n", 0o644)
	b.write(filepath.Join(b.sb, "outside", "dir", "oas_in_outside_dir_gen.go"), user("outside/dir/oas"), 0o644)
	b.write(filepath.Join(b.sb, "outside", "cfg_real.go"), user("outside/cfg_real.go"), 0o640)
	b.write(filepath.Join(b.sb, "outside", "readonly.go"), user("outside/readonly.go"), 0o444)
	b.write(filepath.Join(b.sb, "outside", "private.go"), user("outside/private.go"), 0o400)
}

// States is the enumerated list of target-directory states.
var States = []State{
	{Name: "absent", Target: "out", Build: func(b *builder) {}},
	{Name: "absent-nested", Target: "a/b/c", Build: func(b *builder) {}},
	{Name: "absent-nested-partial", Target: "a/b/c", Build: func(b *builder) {
		b.write(b.abs("a/user.go"), user("a/user.go"), 0o644)
		b.write(b.abs("a/oas_parent_gen.go"), user("a/oas_parent_gen.go"), 0o644)
	}},
	{Name: "empty", Target: "out", Build: func(b *builder) { b.mkdir(b.tgt(""), 0o755) }},
	{Name: "previous-generation", Target: "out", Build: func(b *builder) { b.gen(b.prevGen, 0o644) }},
	{Name: "previous-generation-larger-spec", Target: "out", Build: func(b *builder) {
		b.gen(b.stale, 0o644)
		b.write(b.tgt("main.go"), user("main.go"), 0o644)
	}},
	{Name: "previous-generation-hand-edited", Target: "out", Build: func(b *builder) {
		b.gen(b.prevGen, 0o644)
		if len(b.prevGen) > 1 {
			b.write(b.tgt(b.prevGen[0].Name), "// edited by hand\n"+string(b.prevGen[0].Data), 0o644)
			b.write(b.tgt(b.prevGen[1].Name), "", 0o644)
		}
		b.write(b.tgt("oas_removed_template_gen.go"), "package api\n", 0o644)
		b.write(b.tgt("openapi_old_gen_test.go"), "package api\n", 0o644)
	}},
	{Name: "lookalike-user-files", Target: "out", Build: func(b *builder) {
		b.gen(b.prevGen, 0o644)
		for _, n := range lookalikeNames() {
			b.write(b.tgt(n), user(n), 0o644)
		}
	}},
	{Name: "subdirectories", Target: "out", Build: func(b *builder) {
		b.gen(b.prevGen, 0o644)
		b.gen(b.prevGen, 0o644)
		for _, f := range b.prevGen {
			b.write(b.tgt("v2/"+f.Name), string(f.Data), 0o644)
		}
		b.write(b.tgt("internal/tools/openapi_lint_gen.go"), user("lint"), 0o644)
		b.write(b.tgt("internal/tools/oas_tool_gen_test.go"), user("tool"), 0o644)
		b.mkdir(b.tgt("oas_emptydir_gen.go"), 0o755)
		b.write(b.tgt("openapi_dir_gen.go/oas_inner_gen.go"), user("inner"), 0o644)
		b.write(b.tgt("openapi_dir_gen.go/notes.txt"), "notes\n", 0o644)
		b.mkdir(b.tgt("oas_dir_gen_test.go/deep/deeper"), 0o700)
		b.write(b.tgt("testdata/oas_golden_gen.go"), user("golden"), 0o444)
	}},
	{Name: "symlinks", Target: "out", Build: func(b *builder) {
		outside(b)
		b.gen(b.prevGen, 0o644)
		b.symlink("../../outside/linked.go", b.tgt("oas_link_gen.go"))
		b.symlink("../../outside/dir", b.tgt("oas_dirlink_gen.go"))
		b.symlink("../../outside/dir", b.tgt("linkeddir"))
		b.symlink("../../outside/other.go", b.tgt("user_link.go"))
		b.symlink("nowhere", b.tgt("openapi_dangling_gen_test.go"))
		b.symlink("user_link.go", b.tgt("chain.go"))
		// links named like generated files whose destinations the user has made read-only, outside and inside the target
		b.symlink("../../outside/readonly.go", b.tgt("oas_rolink_gen.go"))
		b.symlink("../../outside/private.go", b.tgt("openapi_private_gen_test.go"))
		b.write(b.tgt("handwritten.go"), user("handwritten.go"), 0o444)
		b.symlink("handwritten.go", b.tgt("oas_locallink_gen.go"))
	}},
	{Name: "symlink-under-own-file-name", Target: "out", Build: func(b *builder) {
		outside(b)
		b.gen(b.prevGen, 0o644)
		_ = os.Remove(b.tgt("oas_cfg_gen.go"))
		b.symlink("../../outside/cfg_real.go", b.tgt("oas_cfg_gen.go"))
	}},
	{Name: "read-only", Target: "out", Build: func(b *builder) {
		b.gen(b.prevGen, 0o444)
		b.write(b.tgt("user_ro.go"), user("user_ro.go"), 0o444)
		b.write(b.tgt("oas_ro_user.go"), user("oas_ro_user.go"), 0o400)
		b.write(b.tgt("ro/oas_x_gen.go"), user("ro/oas_x_gen.go"), 0o444)
		b.mkdir(b.tgt("ro"), 0o555)
	}},
	{Name: "target-is-a-file", Target: "out", Build: func(b *builder) { b.write(b.tgt(""), "i am a file\n", 0o644) }},
	{Name: "target-parent-is-a-file", Target: "afile/out", Build: func(b *builder) { b.write(b.abs("afile"), "i am a file\n", 0o644) }},
	{Name: "target-is-symlink-to-directory", Target: "out", Build: func(b *builder) {
		outside(b)
		real := filepath.Join(b.sb, "outside", "realout")
		for _, f := range b.prevGen {
			b.write(filepath.Join(real, f.Name), string(f.Data), 0o644)
		}
		b.write(filepath.Join(real, "user.go"), user("realout/user.go"), 0o644)
		b.write(filepath.Join(real, "sub", "oas_sub_gen.go"), user("realout/sub"), 0o644)
		b.symlink("../outside/realout", b.abs("out"))
	}},
	{Name: "target-is-working-directory", Target: ".", Build: func(b *builder) {
		b.gen(b.prevGen, 0o644)
		b.write(b.abs("main.go"), user("main.go"), 0o644)
		b.write(b.abs(".ogen.yml"), "{}\n", 0o644) // an auto-discovered config name; empty config = defaults
		b.write(b.abs(".gitignore"), "*.dump\n", 0o644)
		b.write(b.abs("oas_notes.txt"), "notes\n", 0o644)
		b.write(b.abs("sub/oas_sub_gen.go"), user("sub"), 0o644)
	}},
	{Name: "target-is-parent-directory", Target: "..", Build: func(b *builder) {
		b.write(filepath.Join(b.sb, "user_top.go"), user("user_top.go"), 0o644)
		b.write(filepath.Join(b.sb, "oas_top_gen.go"), user("oas_top_gen.go"), 0o644)
	}},
	{Name: "directory-in-the-way", Target: "out", DirInTheWay: true, Build: func(b *builder) {
		b.gen(b.prevGen, 0o644)
		_ = os.Remove(b.tgt("oas_schemas_gen.go"))
		b.write(b.tgt("oas_schemas_gen.go/user_inside.go"), user("inside"), 0o644)
		b.write(b.tgt("keep.go"), user("keep.go"), 0o644)
	}},
	{Name: "odd-names", Target: "out dir/with space", Build: func(b *builder) {
		b.gen(b.prevGen, 0o644)
		b.write(b.tgt("-rf"), "x\n", 0o644)
		b.write(b.tgt("*"), "x\n", 0o644)
		b.write(b.tgt("oas_*_gen.go"), "x\n", 0o644)
		b.write(b.tgt("oas\n_nl_gen.go"), "x\n", 0o644)
		b.write(b.tgt(strings.Repeat("n", 200)+"_gen.go"), "x\n", 0o644)
		b.write(b.tgt("oas_"+strings.Repeat("n", 200)+"_gen.go"), "x\n", 0o644)
	}},
	{Name: "target-path-component-looks-generated", Target: "internal/openapi/oas_v1", Build: func(b *builder) {
		b.gen(b.prevGen, 0o644)
		for _, n := range lookalikeNames() {
			b.write(b.tgt(n), user(n), 0o644)
		}
		b.write(b.tgt("wire_gen.go"), user("wire_gen.go"), 0o644)
		b.write(b.tgt("mock_gen_test.go"), user("mock_gen_test.go"), 0o644)
		b.write(b.abs("internal/openapi/sibling_gen.go"), user("sibling_gen.go"), 0o644)
		b.write(b.abs("internal/oas_sibling_gen.go"), user("oas_sibling_gen.go"), 0o644)
	}},
	{Name: "target-spelled-with-dot-and-trailing-slash", Target: "./openapi-gen//pets/", Build: func(b *builder) {
		b.gen(b.prevGen, 0o644)
		b.write(b.tgt("wire_gen.go"), user("wire_gen.go"), 0o644)
		b.write(b.tgt("types_gen_test.go"), user("types_gen_test.go"), 0o644)
		b.write(b.tgt("myoas_types_gen.go"), user("myoas_types_gen.go"), 0o644)
		b.write(b.tgt("sub/oas_sub_gen.go"), user("sub"), 0o644)
	}},
	{Name: "target-absolute-path", Target: "$SB/work/oas3/gen api", Build: func(b *builder) {
		b.gen(b.prevGen, 0o644)
		b.write(b.tgt("wire_gen.go"), user("wire_gen.go"), 0o644)
		b.write(b.tgt("README.md"), "readme\n", 0o644)
	}},
	{Name: "seeded-random-tree", Target: "out", Thorough: true, Build: randomTree},
}

// randomTree builds a seeded mixture of everything above.
func randomTree(b *builder) {
	outside(b)
	r := b.rng
	names := lookalikeNames()
	b.mkdir(b.tgt(""), 0o755)
	pick := func() string { return names[r.Intn(len(names))] }
	for _, f := range b.prevGen {
		if r.Intn(4) != 0 {
			b.write(b.tgt(f.Name), string(f.Data), []os.FileMode{0o644, 0o444, 0o600}[r.Intn(3)])
		}
	}
	for _, f := range b.stale {
		if r.Intn(3) == 0 {
			b.write(b.tgt(f.Name), string(f.Data), 0o644)
		}
	}
	n := 3 + r.Intn(25)
	for i := 0; i < n; i++ {
		name := pick()
		var dirs []string
		for d := r.Intn(3); d > 0; d-- {
			dirs = append(dirs, []string{"sub", "v2", "internal", "oas_d_gen.go", "openapi_d_gen_test.go", "testdata"}[r.Intn(6)])
		}
		rel := filepath.Join(append(dirs, name)...)
		if _, err := os.Lstat(b.tgt(rel)); err == nil {
			continue
		}
		switch r.Intn(10) {
		case 0:
			b.mkdir(b.tgt(rel), 0o755)
		case 1:
			up := strings.Repeat("../", len(dirs)+2)
			b.symlink(up+"outside/"+[]string{"linked.go", "dir", "other.go", "missing", "readonly.go", "private.go"}[r.Intn(6)], b.tgt(rel))
		default:
			b.write(b.tgt(rel), user(rel)+fmt.Sprint(r.Int63()), []os.FileMode{0o644, 0o444, 0o755}[r.Intn(3)])
		}
		if b.err != nil {
			// a path component exists as a file: skip this entry
			b.err = nil
		}
	}
}
