// Package c20 decides C20 with the real cmd/ogen binary run as a child process in a private sandbox
// directory on the real file system (DESIGN.md 3.6 and section 4, C20): failure stage x target state x
// --clean, then single faults at every system call of the traced run (fault enumeration).
package c20

import (
	"encoding/json"
	"fmt"
	"math/rand"
	"os"
	"path/filepath"
	"sort"
	"strings"
	"sync"
	"syscall"
	"time"

	"verif/internal/build"
	"verif/internal/core"
	"verif/internal/evid"
	"verif/internal/rewrite"
	"verif/internal/snap"
)

// Scenario is one complete, explicit case.
type Scenario struct {
	Fixture  string `json:"fixture"`
	State    string `json:"state"`
	Clean    bool   `json:"clean"`
	Fault    string `json:"fault,omitempty"`     // simos plan (R4 build) or "rlimit-fsize=<blocks>"
	TreeSeed int64  `json:"tree_seed,omitempty"` // for seeded random trees
	Procs    int    `json:"gomaxprocs,omitempty"`
}

func (s Scenario) String() string {
	c := ""
	if s.Clean {
		c = " --clean"
	}
	f := ""
	if s.Fault != "" {
		f = " fault=" + s.Fault
	}
	if s.TreeSeed != 0 {
		f += fmt.Sprintf(" tree=%d", s.TreeSeed)
	}
	return fmt.Sprintf("%s x %s%s%s", s.Fixture, s.State, c, f)
}

type refInfo struct {
	Stderr string
	Exit   int
	Files  []RefFile
	Err    string
}

type result struct {
	Sc        Scenario
	Exit      int
	Class     string // untouched | exact | relaxed
	Problems  []string
	Stderr    string
	Cleaned   int // own entries removed by --clean
	Written   int
	FaultHit  bool
	TraceOps  []traceLine
	ToolError string
}

type traceLine struct {
	Op, Path, Action string
	N                int
}

type engine struct {
	s      *build.Scratch
	fix    map[string]Fixture
	states map[string]State
	refs   map[string]*refInfo // by fixture name
	refMu  sync.Mutex
	sbSeq  int
	sbMu   sync.Mutex
	hasSim bool
}

// Run is the check.
func Run(c *core.Ctx) (*core.Outcome, error) {
	syscall.Umask(0o022)
	s, err := build.NewScratch(c.ID)
	if err != nil {
		return nil, err
	}
	defer s.Remove()
	if err := s.CopyRepo("/examples", "/internal/integration", "/_testdata", "/_logo"); err != nil {
		return nil, err
	}
	if err := s.BuildCLI("./cmd/ogen", "ogen", ""); err != nil {
		return nil, err
	}
	// R4 build of the same CLI: os calls of cmd/ogen, gen, gen/genfs go through simos.
	if err := copyDir(filepath.Join(build.VerifDir, "simsrc", "simos"), filepath.Join(s.Src, "internal", "simos")); err != nil {
		return nil, build.Toolf("copy simos: %v", err)
	}
	r4, err := rewrite.R4(s.Src, "github.com/ogen-go/ogen/internal/simos", []string{"cmd/ogen", "gen", "gen/genfs"})
	if err != nil {
		return nil, build.Toolf("R4 rewrite: %v", err)
	}
	if err := s.BuildCLI("./cmd/ogen", "ogen-simos", ""); err != nil {
		return nil, err
	}

	e := &engine{s: s, fix: map[string]Fixture{}, states: map[string]State{}, refs: map[string]*refInfo{}, hasSim: true}
	for _, f := range Fixtures {
		e.fix[f.Name] = f
	}
	for _, st := range States {
		e.states[st.Name] = st
	}

	// reference runs (empty target, no --clean, plain binary), in parallel
	{
		var wg sync.WaitGroup
		sem := make(chan struct{}, c.Jobs)
		for _, f := range Fixtures {
			wg.Add(1)
			sem <- struct{}{}
			go func(f Fixture) {
				defer wg.Done()
				defer func() { <-sem }()
				ri := e.refRun(f)
				e.refMu.Lock()
				e.refs[f.Name] = ri
				e.refMu.Unlock()
			}(f)
		}
		wg.Wait()
	}
	out := &core.Outcome{}
	// sanity of fixtures and reference runs
	stageCount := map[string]int{}
	for _, f := range Fixtures {
		ri := e.refs[f.Name]
		if os.Getenv("VERIF_C20_DEBUG") != "" {
			fmt.Printf("fixture %-45s exit=%d files=%d  %s\n", f.Name, ri.Exit, len(ri.Files), clipS(strings.Join(strings.Fields(tailS(ri.Stderr, 400)), " "), 300))
		}
		if ri.Err != "" {
			return nil, build.Toolf("reference run of %s: %s", f.Name, ri.Err)
		}
		stageCount[f.Stage]++
		if !f.Fails && (ri.Exit != 0 || len(ri.Files) == 0) {
			return nil, build.Toolf("fixture %s is meant to generate but the reference run exits %d with %d files", f.Name, ri.Exit, len(ri.Files))
		}
	}

	// ---- scenario list
	var scs []Scenario
	if c.Replay != nil {
		var sc Scenario
		if err := json.Unmarshal(c.Replay.Scenario, &sc); err != nil {
			return nil, build.Toolf("replay: %v", err)
		}
		scs = []Scenario{sc}
	} else {
		rng := rand.New(rand.NewSource(c.Seed))
		for _, f := range Fixtures {
			for _, st := range States {
				if st.Thorough {
					continue
				}
				for _, clean := range []bool{false, true} {
					scs = append(scs, Scenario{Fixture: f.Name, State: st.Name, Clean: clean, Procs: []int{1, 2, 4, 16}[rng.Intn(4)]})
				}
			}
		}
		nRandom := 60
		if c.Tier == "thorough" {
			nRandom = 3000
		}
		for i := 0; i < nRandom; i++ {
			f := Fixtures[rng.Intn(len(Fixtures))]
			scs = append(scs, Scenario{Fixture: f.Name, State: "seeded-random-tree", Clean: rng.Intn(3) != 0, TreeSeed: rng.Int63n(1<<40) + 1, Procs: []int{1, 2, 4, 16}[rng.Intn(4)]})
		}
	}

	results := e.runAll(c, scs)

	// ---- fault enumeration: trace fault-free runs of the R4 build, then inject one fault per traced call
	var faultScs []Scenario
	if c.Replay == nil {
		faultScs = e.enumerateFaults(c)
		results = append(results, e.runAll(c, faultScs)...)
	}

	// ---- collect
	cells := map[string]bool{}
	classCount := map[string]int{}
	faultKinds := map[string]int{}
	faultFired := map[string]int{}
	probes := map[string]int{}
	var samples []any
	viol := 0
	for _, r := range results {
		if r.ToolError != "" {
			return nil, build.Toolf("scenario %s: %s", r.Sc, r.ToolError)
		}
		f := e.fix[r.Sc.Fixture]
		cell := fmt.Sprintf("%s|%s|%v|%s", f.Stage+":"+f.Name, r.Sc.State, r.Sc.Clean, faultKind(r.Sc.Fault))
		if r.Sc.TreeSeed != 0 {
			cell += fmt.Sprint("|", r.Sc.TreeSeed)
		}
		cells[cell] = true
		classCount[r.Class]++
		if r.Sc.Fault != "" {
			faultKinds[faultKind(r.Sc.Fault)]++
			if r.FaultHit {
				faultFired[faultKind(r.Sc.Fault)]++
			}
		}
		if r.Cleaned > 0 {
			probes["clean_removed_at_least_one_entry"]++
		}
		if r.Class == "untouched" && r.Sc.Clean {
			probes["prewrite_failure_with_clean_requested"]++
		}
		if r.Written > 0 {
			probes["generator_wrote_files"]++
		}
		if r.Class == "relaxed" {
			probes["fault_in_clean_or_write_phase"]++
		}
		if len(r.Problems) > 0 {
			viol++
			key := fmt.Sprintf("%s %s %s clean=%v fault=%s :: %s", f.Stage, r.Sc.Fixture, r.Sc.State, r.Sc.Clean, faultKind(r.Sc.Fault), keyOf(r.Problems))
			out.Violations = append(out.Violations, core.Violation{
				Key:    key,
				Oracle: "directory model: " + r.Class,
				What:   fmt.Sprintf("%s: exit %d; %s; stderr: %s", r.Sc, r.Exit, describeChanges(r.Problems, 8), clipS(lastLine(r.Stderr), 200)),
				Seed:   c.Seed, Scenario: r.Sc, Trace: map[string]any{"syscalls": r.TraceOps, "problems": r.Problems},
			})
		}
		if len(samples) < 6 && (len(samples)%2 == 0) == (r.Class == "untouched") {
			samples = append(samples, map[string]any{"scenario": r.Sc, "stage": f.Stage, "exit": r.Exit, "judged_by": r.Class, "own_entries_cleaned": r.Cleaned, "files_written": r.Written})
		}
	}
	for _, k := range []string{"clean_removed_at_least_one_entry", "prewrite_failure_with_clean_requested", "generator_wrote_files", "fault_in_clean_or_write_phase"} {
		if _, ok := probes[k]; !ok {
			probes[k] = 0
		}
	}
	out.Evidence = &evid.Evidence{
		Level: "fault_enumeration",
		Coverage: map[string]any{
			"evaluations":         len(results),
			"distinct_nontrivial": len(cells),
			"rule": "cells of (failure stage:fixture) x (target-directory state) x (--clean on/off) x (fault kind), each run with the real cmd/ogen binary built from the working tree in a private sandbox directory and judged by the directory model; " +
				"all fixtures x all enumerated states x clean on/off are run in both tiers, plus seeded random target trees, plus one injected fault at every system call seen in traced fault-free runs (R4 build); a cell is counted once however often it ran",
			"samples":                samples,
			"exhaustive":             true,
			"fixtures":               len(Fixtures),
			"fixtures_per_stage":     stageCount,
			"target_states":          len(States),
			"judged_by":              classCount,
			"fault_scenarios":        len(faultScs),
			"fault_kinds_configured": faultKinds,
			"fault_kinds_fired":      faultFired,
			"probes":                 probes,
			"r4_sites":               r4.Sites,
			"r4_files":               r4.Files,
			"runs_per_hour":          int(float64(len(results)) / time.Since(c.Start).Hours()),
			"simulated_time":         "none: the CLI has no timers; every run is a real child process",
			"real_components":        []string{"cmd/ogen binary (plain build for fault-free and real-OS faults; R4 build, os.* -> simos.*, for EIO/ENOSPC/EACCES/short write/crash at a chosen call)", "parser, IR builder, generator, x/tools/imports and its `go env` child", "the real file system of a private sandbox directory"},
			"stubbed_components":     []string{"none of ogen; in the R4 build the seven os functions of cmd/ogen, gen, gen/genfs are wrappers that call the real function unless the fault plan names the call"},
		},
		Assumptions: []string{
			"the sandbox runs as root: permission bits cannot make a call fail, EACCES/EROFS/EIO/ENOSPC come from the R4 build",
			"the naming pattern of the generator's own files is prefix oas|openapi and suffix _gen.go|_gen_test.go, as the property's anchors state it",
			"files the user asks for inside the target (expand:, -cpuprofile) are outside the scenarios; `<file>.dump` written to the working directory after a write failure is allowed",
			"with injected faults and write-phase faults the exit status is recorded, not judged (the statement demands non-zero only for pre-write failures)",
		},
	}
	_ = viol
	return out, nil
}

func keyOf(problems []string) string {
	// kinds and base names of the first problems: stable across seeds
	var ks []string
	for i, p := range problems {
		if i == 3 {
			break
		}
		kind, pth, _ := strings.Cut(p, " ")
		ks = append(ks, kind+":"+filepath.Base(pth))
	}
	return strings.Join(ks, ",")
}

func faultKind(f string) string {
	if f == "" {
		return "none"
	}
	if strings.HasPrefix(f, "rlimit-fsize") {
		return "rlimit-fsize(real kernel: torn write + EFBIG)"
	}
	head, action, _ := strings.Cut(f, ":")
	op := head
	if i := strings.IndexAny(head, "#@"); i >= 0 {
		op = head[:i]
	}
	if i := strings.IndexByte(action, '='); i >= 0 {
		action = action[:i]
	}
	return op + ":" + action
}

func (e *engine) runAll(c *core.Ctx, scs []Scenario) []result {
	results := make([]result, len(scs))
	var wg sync.WaitGroup
	sem := make(chan struct{}, c.Jobs)
	for i := range scs {
		wg.Add(1)
		sem <- struct{}{}
		go func(i int) {
			defer wg.Done()
			defer func() { <-sem }()
			results[i] = e.runScenario(scs[i])
		}(i)
	}
	wg.Wait()
	return results
}

func (e *engine) newSandbox() string {
	e.sbMu.Lock()
	e.sbSeq++
	n := e.sbSeq
	e.sbMu.Unlock()
	return filepath.Join(e.s.Dir, "sb", fmt.Sprint(n))
}

// materialize writes the fixture's files into work/ and returns the CLI arguments.
func materialize(f Fixture, sb, target string, clean bool) ([]string, error) {
	work := filepath.Join(sb, "work")
	if err := os.MkdirAll(work, 0o755); err != nil {
		return nil, err
	}
	specName := f.SpecAs
	if specName == "" {
		specName = "spec.yml"
	}
	if f.Spec != "" {
		if err := os.WriteFile(filepath.Join(work, specName), []byte(f.Spec), 0o644); err != nil {
			return nil, err
		}
	}
	var args []string
	if f.Config != "" {
		if err := os.WriteFile(filepath.Join(work, "cfg.yml"), []byte(f.Config), 0o644); err != nil {
			return nil, err
		}
		args = append(args, "--config", "cfg.yml")
	} else if f.CfgArg != "" {
		args = append(args, "--config", f.CfgArg)
	}
	for name, content := range f.Files {
		switch {
		case strings.HasSuffix(name, "/"):
			if err := os.MkdirAll(filepath.Join(work, name), 0o755); err != nil {
				return nil, err
			}
		case strings.Contains(name, "->"):
			l, t, _ := strings.Cut(name, "->")
			if err := os.Symlink(t, filepath.Join(work, l)); err != nil {
				return nil, err
			}
		default:
			if err := os.WriteFile(filepath.Join(work, name), []byte(content), 0o644); err != nil {
				return nil, err
			}
		}
	}
	args = append(args, "--target", target, "--package", "api")
	if clean {
		args = append(args, "--clean")
	}
	args = append(args, f.Flags...)
	switch f.Arg {
	case "-":
	case "":
		args = append(args, specName)
	default:
		args = append(args, f.Arg)
	}
	return args, nil
}

func (e *engine) refRun(f Fixture) *refInfo {
	sb := e.newSandbox()
	defer os.RemoveAll(sb)
	args, err := materialize(f, sb, "out", false)
	if err != nil {
		return &refInfo{Err: err.Error()}
	}
	if err := os.MkdirAll(filepath.Join(sb, "work", "out"), 0o755); err != nil {
		return &refInfo{Err: err.Error()}
	}
	r := e.s.Run(filepath.Join(sb, "work"), 5*time.Minute, []string{"GOMAXPROCS=4"}, filepath.Join(e.s.Bin, "ogen"), args...)
	if r.Err != nil {
		return &refInfo{Err: r.Err.Error()}
	}
	ri := &refInfo{Exit: r.Exit, Stderr: string(r.Stderr)}
	ents, _ := os.ReadDir(filepath.Join(sb, "work", "out"))
	for _, en := range ents {
		b, err := os.ReadFile(filepath.Join(sb, "work", "out", en.Name()))
		if err != nil {
			return &refInfo{Err: err.Error()}
		}
		ri.Files = append(ri.Files, RefFile{Name: en.Name(), Data: b})
	}
	if toolTrouble(string(r.Stderr)) {
		ri.Err = "go env child could not run: " + lastLine(string(r.Stderr))
	}
	return ri
}

func toolTrouble(stderr string) bool {
	for _, s := range []string{"fork/exec", "resource temporarily unavailable", "cannot allocate memory", "too many open files"} {
		if strings.Contains(stderr, s) {
			return true
		}
	}
	return false
}

func (e *engine) runScenario(sc Scenario) (res result) {
	res.Sc = sc
	f, ok := e.fix[sc.Fixture]
	st, ok2 := e.states[sc.State]
	if !ok || !ok2 {
		res.ToolError = "unknown fixture or state"
		return
	}
	ref := e.refs[f.Name]
	small := e.refs["ok/small"]
	large := e.refs["ok/large"]
	sb := e.newSandbox()
	defer func() {
		_ = filepath.Walk(sb, func(p string, info os.FileInfo, err error) error {
			if err == nil && info.IsDir() {
				_ = os.Chmod(p, 0o755)
			}
			return nil
		})
		_ = os.RemoveAll(sb)
	}()
	// the target as spelled on the command line, and the same place relative to the working directory
	targetArg := strings.ReplaceAll(st.Target, "$SB", sb)
	relTarget := targetArg
	if filepath.IsAbs(targetArg) {
		if rel, err := filepath.Rel(filepath.Join(sb, "work"), targetArg); err == nil {
			relTarget = rel
		}
	}
	relTarget = filepath.Clean(relTarget)
	args, err := materialize(f, sb, targetArg, sc.Clean)
	if err != nil {
		res.ToolError = err.Error()
		return
	}
	prev := ref.Files
	if len(prev) == 0 {
		prev = small.Files
	}
	b := &builder{sb: sb, target: relTarget, prevGen: prev, stale: large.Files, rng: rand.New(rand.NewSource(sc.TreeSeed))}
	st.Build(b)
	if b.err != nil {
		res.ToolError = "state builder: " + b.err.Error()
		return
	}
	before, err := snap.Take(sb)
	if err != nil {
		res.ToolError = err.Error()
		return
	}

	bin := filepath.Join(e.s.Bin, "ogen")
	env := []string{fmt.Sprintf("GOMAXPROCS=%d", max(1, sc.Procs))}
	name, argv := bin, args
	tracePath := ""
	switch {
	case strings.HasPrefix(sc.Fault, "rlimit-fsize="):
		blocks := strings.TrimPrefix(sc.Fault, "rlimit-fsize=")
		name = "/bin/sh"
		argv = append([]string{"-c", "ulimit -f " + blocks + "; exec \"$0\" \"$@\"", bin}, args...)
	case sc.Fault != "":
		bin = filepath.Join(e.s.Bin, "ogen-simos")
		name = bin
		tracePath = sb + ".trace"
		defer os.Remove(tracePath)
		env = append(env, "VERIF_SIMOS_PLAN="+strings.TrimPrefix(sc.Fault, "trace-only"), "VERIF_SIMOS_TRACE="+tracePath)
	}
	r := e.s.Run(filepath.Join(sb, "work"), 5*time.Minute, env, name, argv...)
	res.Stderr = string(r.Stderr)
	res.Exit = r.Exit
	if r.Err != nil && r.Exit >= 0 {
		res.ToolError = r.Err.Error()
		return
	}
	if r.Err != nil { // killed by a signal (SIGXFSZ under rlimit): a crash, exit status "non-zero"
		res.Exit = 128
	}
	if toolTrouble(res.Stderr) {
		res.ToolError = "go env child could not run: " + lastLine(res.Stderr)
		return
	}
	if tracePath != "" {
		res.TraceOps = readTrace(tracePath, sb)
		for _, t := range res.TraceOps {
			if t.Action != "-" {
				res.FaultHit = true
			}
		}
	}
	if strings.HasPrefix(sc.Fault, "rlimit-fsize=") && (r.Err != nil || strings.Contains(res.Stderr, "file too large")) {
		res.FaultHit = true
	}
	after, err := snap.Take(sb)
	if err != nil {
		res.ToolError = err.Error()
		return
	}

	targetRel := filepath.ToSlash(filepath.Join("work", relTarget))
	// what this fixture does with the tree under test, from its reference run
	fails := ref.Exit != 0 && len(ref.Files) == 0
	if f.Fails && !fails {
		if ref.Exit != 0 {
			// meant to fail before writing, but its reference run wrote files and failed
			res.Class = "untouched"
			res.Problems = []string{fmt.Sprintf("created %d file(s) in an empty target although the run fails (stage %s)", len(ref.Files), f.Stage)}
			return
		}
		if f.MustFail {
			res.Class = "untouched"
			res.Problems = []string{fmt.Sprintf("accepted-input-the-statement-names-a-failure (stage %s: the generator exits 0 and writes %d file(s))", f.Stage, len(ref.Files))}
			return
		}
		// the tree under test accepts this input: judge it as a proceeding generation
	}
	faulty := sc.Fault != "" && sc.Fault != "trace-only"
	switch {
	case fails && !faulty:
		res.Class = "untouched"
		res.Problems = judgeUntouched(before, after)
		if res.Exit == 0 {
			res.Problems = append(res.Problems, "exit-status-zero .")
		}
	default:
		expected, owned, ok := Expect(before, targetRel, sc.Clean, ref.Files)
		for p := range owned {
			if _, was := before[p]; was {
				if _, still := after[p]; !still {
					res.Cleaned++
				}
			}
		}
		for _, ch := range snap.Diff(before, after, true) {
			if ch.Kind == "created" || ch.Kind == "modified" || ch.Kind == "rewritten" {
				res.Written++
			}
		}
		switch {
		case fails:
			// failing fixture with an injected fault: still nothing may change
			res.Class = "untouched"
			res.Problems = judgeUntouched(before, after)
		case !ok && !faulty:
			// target (or a parent) is not a directory: a pre-write failure of a valid spec
			res.Class = "untouched"
			res.Problems = judgeUntouched(before, after)
			if res.Exit == 0 {
				res.Problems = append(res.Problems, "exit-status-zero .")
			}
		case st.DirInTheWay || faulty:
			res.Class = "relaxed"
			T, _ := resolve(before, targetRel, 0)
			res.Problems = judgeRelaxed(before, after, owned, "work", ref.Files, T)
		default:
			res.Class = "exact"
			res.Problems = judgeExact(before, expected, after, owned)
			if res.Exit != 0 {
				res.Problems = append(res.Problems, "exit-status-nonzero .")
			}
		}
	}
	return
}

func readTrace(path, sb string) []traceLine {
	b, err := os.ReadFile(path)
	if err != nil {
		return nil
	}
	var out []traceLine
	for _, l := range strings.Split(strings.TrimSpace(string(b)), "\n") {
		p := strings.Split(l, "\t")
		if len(p) != 4 {
			continue
		}
		var n int
		fmt.Sscan(p[1], &n)
		rel, err := filepath.Rel(filepath.Join(sb, "work"), filepath.Join(filepath.Join(sb, "work"), p[2]))
		if err != nil {
			rel = p[2]
		}
		out = append(out, traceLine{Op: p[0], N: n, Path: rel, Action: p[3]})
	}
	return out
}

// enumerateFaults traces fault-free runs of the R4 build and derives one scenario per traced call
// and applicable fault action.
func (e *engine) enumerateFaults(c *core.Ctx) []Scenario {
	type base struct {
		fixture, state string
		clean          bool
	}
	bases := []base{
		{"ok/small", "previous-generation-hand-edited", true},
		{"ok/small", "lookalike-user-files", true},
		{"ok/small", "subdirectories", true},
		{"ok/small", "symlinks", true},
		{"ok/small", "absent-nested-partial", false},
		{"ok/small", "target-is-working-directory", true},
		{"ok/small-json-config", "previous-generation-larger-spec", true},
		{"config/unknown-feature-enable", "previous-generation", true},
		{"invalid/dangling-ref", "lookalike-user-files", true},
		{"route/two-parameters-in-a-row", "subdirectories", true},
	}
	if c.Tier == "thorough" {
		bases = append(bases,
			base{"ok/large", "lookalike-user-files", true},
			base{"ok/large", "symlink-under-own-file-name", true},
			base{"ok/large", "read-only", true},
			base{"ok/client-only", "previous-generation-larger-spec", true},
			base{"ok/small", "target-is-symlink-to-directory", true},
			base{"ok/small", "odd-names", true},
			base{"ok/small", "absent", true},
			base{"ir/type-name-conflict", "symlinks", true},
			base{"notimpl/space-delimited", "previous-generation-hand-edited", true},
		)
	}
	var traceScs []Scenario
	for _, b := range bases {
		traceScs = append(traceScs, Scenario{Fixture: b.fixture, State: b.state, Clean: b.clean, Fault: "trace-only", Procs: 1})
	}
	traces := e.runAll(c, traceScs)
	var out []Scenario
	seen := map[string]bool{}
	add := func(sc Scenario) {
		k := sc.String()
		if !seen[k] {
			seen[k] = true
			out = append(out, sc)
		}
	}
	for i, tr := range traces {
		b := bases[i]
		for _, t := range tr.TraceOps {
			sel := fmt.Sprintf("%s#%d", t.Op, t.N)
			if t.Op == "WriteFile" || t.Op == "Remove" {
				// these calls run in parallel / in directory order: select by name, which replays exactly
				sel = t.Op + "@" + filepath.Base(t.Path)
			}
			var actions []string
			switch t.Op {
			case "WriteFile":
				actions = []string{"ENOSPC", "EIO", "short=0", "short=37", "crash", "crashafter"}
			case "Remove":
				actions = []string{"EACCES", "EIO", "crash", "crashafter"}
			case "ReadFile", "ReadDir", "Stat":
				actions = []string{"EIO", "EACCES", "crash"}
			case "MkdirAll":
				actions = []string{"EACCES", "ENOSPC", "EROFS", "crash", "crashafter"}
			case "Create":
				actions = []string{"EACCES", "crash"}
			}
			if c.Tier != "thorough" && len(actions) > 3 {
				// quick: errno, torn write / crash
				actions = []string{actions[0], actions[len(actions)-2], actions[2]}
			}
			for _, a := range actions {
				add(Scenario{Fixture: b.fixture, State: b.state, Clean: b.clean, Fault: sel + ":" + a, Procs: 4})
			}
		}
		// real-OS torn write: RLIMIT_FSIZE of k 512-byte blocks makes the kernel cut a write and return EFBIG
		if strings.HasPrefix(b.fixture, "ok/") {
			blocks := []int{0, 1, 8, 64}
			if c.Tier == "thorough" {
				blocks = []int{0, 1, 2, 4, 8, 16, 32, 64, 128}
			}
			for _, k := range blocks {
				add(Scenario{Fixture: b.fixture, State: b.state, Clean: b.clean, Fault: fmt.Sprintf("rlimit-fsize=%d", k), Procs: 2})
			}
		}
	}
	sort.SliceStable(out, func(i, j int) bool { return out[i].String() < out[j].String() })
	return out
}

func copyDir(src, dst string) error {
	if err := os.MkdirAll(dst, 0o755); err != nil {
		return err
	}
	ents, err := os.ReadDir(src)
	if err != nil {
		return err
	}
	for _, e := range ents {
		if e.IsDir() {
			if err := copyDir(filepath.Join(src, e.Name()), filepath.Join(dst, e.Name())); err != nil {
				return err
			}
			continue
		}
		b, err := os.ReadFile(filepath.Join(src, e.Name()))
		if err != nil {
			return err
		}
		if err := os.WriteFile(filepath.Join(dst, e.Name()), b, 0o644); err != nil {
			return err
		}
	}
	return nil
}

func lastLine(s string) string {
	ls := strings.Split(strings.TrimSpace(s), "\n")
	return ls[len(ls)-1]
}

func clipS(s string, n int) string {
	if len(s) > n {
		return s[:n] + "…"
	}
	return s
}

func tailS(s string, n int) string {
	if len(s) > n {
		return s[len(s)-n:]
	}
	return s
}
