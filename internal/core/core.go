// Package core holds what every check shares: context, violations, the report/exit protocol.
package core

import (
	"encoding/json"
	"errors"
	"fmt"
	"os"
	"sort"
	"time"

	"verif/internal/build"
	"verif/internal/evid"
)

// Ctx is one invocation of a check.
type Ctx struct {
	ID     string
	Tier   string // quick | thorough
	Seed   int64
	Budget time.Duration // optional wall-clock cap for the exploring part (0 = tier default)
	Start  time.Time
	Replay *evid.Replay // set when replaying
	Jobs   int
}

// Violation is one failed oracle.
type Violation struct {
	Key      string // stable identity: what fails, not which seed found it
	Oracle   string
	What     string
	Seed     int64
	Scenario any // complete minimised scenario, explicit values
	Trace    any // realised schedule / fault trace
}

// Outcome of a check.
type Outcome struct {
	Evidence   *evid.Evidence
	Violations []Violation
}

// CheckFunc runs a property check.
type CheckFunc func(*Ctx) (*Outcome, error)

// maxReported bounds the number of replay files one invocation writes.
var maxReported = 6

func init() {
	// development aid: VERIF_MAX_REPORTED raises the number of violations written out
	var n int
	if _, err := fmt.Sscan(os.Getenv("VERIF_MAX_REPORTED"), &n); err == nil && n > 0 {
		maxReported = n
	}
}

// Finish writes evidence, prints KNOWN-FINDING / VIOLATION lines and returns the exit code.
func Finish(c *Ctx, o *Outcome, err error) int {
	defer build.RunCleanups()
	if err != nil {
		var te *build.ToolError
		if errors.As(err, &te) {
			fmt.Fprintf(os.Stderr, "check %s: %v\n", c.ID, err)
		} else {
			fmt.Fprintf(os.Stderr, "check %s: internal error: %v\n", c.ID, err)
		}
		writeTrouble(c, err)
		return 2
	}
	findings, ferr := evid.LoadFindings()
	if ferr != nil {
		fmt.Fprintf(os.Stderr, "check %s: %v\n", c.ID, ferr)
		return 2
	}
	// Deduplicate by key; the first (smallest seed) representative is reported.
	sort.SliceStable(o.Violations, func(i, j int) bool { return o.Violations[i].Key < o.Violations[j].Key })
	seen := map[string]bool{}
	var unknownKeys, knownKeys []string
	unknown := 0
	known := map[string]bool{}
	for _, v := range o.Violations {
		if seen[v.Key] {
			continue
		}
		seen[v.Key] = true
		if f := evid.Known(findings, c.ID, v.Key); f != nil {
			if !known[f.Matcher] {
				known[f.Matcher] = true
				fmt.Printf("KNOWN-FINDING: property=%s %s\n", c.ID, f.Text)
			}
			continue
		}
		unknown++
		unknownKeys = append(unknownKeys, v.Key)
		if unknown > maxReported {
			continue
		}
		sc, _ := json.Marshal(v.Scenario)
		path, werr := evid.WriteReplay(&evid.Replay{
			Property: c.ID, Tier: c.Tier, Seed: v.Seed, Oracle: v.Oracle, What: v.What, Key: v.Key,
			Scenario: sc, Trace: v.Trace,
		})
		if werr != nil {
			fmt.Fprintf(os.Stderr, "check %s: cannot write replay: %v\n", c.ID, werr)
			path = "unwritable"
		}
		fmt.Printf("violated oracle %q: %s\n", v.Oracle, v.What)
		fmt.Printf("VIOLATION property=%s replay=%s\n", c.ID, path)
	}
	if unknown > maxReported {
		fmt.Printf("... and %d more distinct violations not written out\n", unknown-maxReported)
	}
	if o.Evidence != nil {
		o.Evidence.PropertyID = c.ID
		o.Evidence.Tier = c.Tier
		o.Evidence.Seed = c.Seed
		o.Evidence.WallS = time.Since(c.Start).Seconds()
		o.Evidence.Violations = unknown
		if o.Evidence.Coverage == nil {
			o.Evidence.Coverage = map[string]any{}
		}
		o.Evidence.Coverage["known_findings_matched"] = len(known)
		o.Evidence.Coverage["violation_keys"] = unknownKeys
		o.Evidence.Coverage["known_finding_keys"] = knownKeys
		o.Evidence.Coverage["tree"] = build.TreeID()
		if c.Replay == nil {
			if err := o.Evidence.Write(); err != nil {
				fmt.Fprintf(os.Stderr, "check %s: cannot write evidence: %v\n", c.ID, err)
				return 2
			}
		}
	}
	if unknown > 0 {
		return 1
	}
	fmt.Printf("OK property=%s tier=%s seed=%d wall=%.1fs\n", c.ID, c.Tier, c.Seed, time.Since(c.Start).Seconds())
	return 0
}

// writeTrouble leaves no stale evidence behind when the check could not run: the file is removed.
func writeTrouble(c *Ctx, err error) {
	if c.Replay != nil {
		return
	}
	if build.Repo != "/repo" {
		return // a run against another tree never touches the evidence of the tree under verification
	}
	_ = os.Remove(build.VerifDir + "/evidence/" + c.ID + ".json")
}
