package xsim

import (
	"bytes"
	"context"
	"crypto/sha256"
	"encoding/hex"
	"errors"
	"fmt"
	"io"
	"math"
	"net/netip"
	"net/url"
	"os"
	"reflect"
	"sort"
	"strconv"
	"strings"
	"sync/atomic"
	"testing/iotest"
	"time"

	"github.com/go-faster/jx"
	"github.com/google/uuid"

	ht "github.com/ogen-go/ogen/http"
	"github.com/ogen-go/ogen/middleware"
	"github.com/ogen-go/ogen/ogenerrors"

	api "XSIM_API_IMPORT"
)

// Call is one client call of a scenario.
type Call struct {
	Op      string `json:"op"`
	V       uint64 `json:"v"`                 // value seed
	Invalid string `json:"invalid,omitempty"` // make the request fail validation in this way
	Fault   *Fault `json:"fault,omitempty"`
	Reader  string `json:"reader,omitempty"` // bytes | onebyte | dataerr | half : how stream bodies deliver their bytes
	Cred    string `json:"cred,omitempty"`   // secure: header | basic+query | bearer | none | wrong
	Huge    bool   `json:"huge,omitempty"`   // echoForm: one member is longer than ten MiB
}

// CallRecord is everything observed about one call.
type CallRecord struct {
	Task       int    `json:"task"`
	Op         int    `json:"op"`
	Call       Call   `json:"call"`
	Tag        string `json:"tag"`
	fired      atomic.Bool
	sides      [3]*ServerSide // first attempt, replayed attempt, duplicate delivery: one writer each
	links      [2][2]*link
	ReqBytes   int  `json:"req_bytes"`  // wire bytes of the (last) request as sent
	RespBytes  int  `json:"resp_bytes"` // wire bytes of the (last) response
	FaultFired bool `json:"fault_fired"`

	Sides []*ServerSide `json:"sides"`

	Returned       bool   `json:"returned"`
	ClientErr      string `json:"client_err,omitempty"`
	ClientErrClass string `json:"client_err_class,omitempty"`
	ClientGot      string `json:"client_got,omitempty"`

	ExpectServerSaw string `json:"expect_server_saw,omitempty"`
	ExpectClientGot string `json:"expect_client_got,omitempty"`
	ExpectStatus    int    `json:"expect_status"`
	ExpectErrClass  string `json:"expect_err_class,omitempty"`
	MayRefuse       bool   `json:"may_refuse,omitempty"` // a value contains its style's delimiter: an error is as good as exact delivery
	HasBody         bool   `json:"has_body,omitempty"`   // echoOpt: the optional body was supplied
	ReqCT           string `json:"req_ct,omitempty"`     // Content-Type of the request as the client sent it
	ReqMethod       string `json:"req_method,omitempty"` // method and escaped path as they went on the wire (after an intermediary rewrote them)
	ReqPath         string `json:"req_path,omitempty"`
}

func (r *CallRecord) fire() { r.fired.Store(true) }

// seal copies what concurrent tasks recorded into the exported fields (call it after everything finished).
func (r *CallRecord) seal() {
	r.FaultFired = r.fired.Load()
	for _, l := range r.links {
		if l[0] != nil {
			r.ReqBytes, r.RespBytes = l[0].Bytes, l[1].Bytes
		}
	}
	r.Sides = nil
	for _, s := range r.sides {
		if s != nil {
			r.Sides = append(r.Sides, s)
		}
	}
}

// ---------------------------------------------------------------- canonical rendering (no ogen code involved)

func canon(v any) string {
	var sb strings.Builder
	canonVal(&sb, reflect.ValueOf(v), 0)
	return sb.String()
}

var timeType = reflect.TypeOf(time.Time{})

func canonVal(sb *strings.Builder, v reflect.Value, depth int) {
	if !v.IsValid() {
		sb.WriteString("nil")
		return
	}
	if depth > 12 {
		sb.WriteString("…")
		return
	}
	if v.Type() == timeType {
		sb.WriteString(v.Interface().(time.Time).UTC().Format(time.RFC3339Nano))
		return
	}
	// opaque library values (netip.Addr, uuid.UUID, time.Duration ...) render themselves
	if pp := v.Type().PkgPath(); pp != "" && !strings.HasSuffix(pp, "/api") && v.CanInterface() && v.Kind() != reflect.Struct || v.Type().String() == "netip.Addr" {
		if st, ok := v.Interface().(fmt.Stringer); ok {
			fmt.Fprintf(sb, "%s(%s)", v.Type().String(), st.String())
			return
		}
	}
	switch v.Kind() {
	case reflect.Pointer, reflect.Interface:
		if v.IsNil() {
			sb.WriteString("nil")
			return
		}
		if v.Kind() == reflect.Interface {
			sb.WriteString(v.Elem().Type().String() + ":")
		}
		canonVal(sb, v.Elem(), depth+1)
	case reflect.Struct:
		sb.WriteString("{")
		t := v.Type()
		for i := 0; i < v.NumField(); i++ {
			f := t.Field(i)
			if !f.IsExported() {
				continue
			}
			if f.Type.Kind() == reflect.Interface && f.Type.String() == "io.Reader" {
				continue // stream contents are compared separately
			}
			sb.WriteString(f.Name + ":")
			canonVal(sb, v.Field(i), depth+1)
			sb.WriteString(" ")
		}
		sb.WriteString("}")
	case reflect.Slice:
		if v.Type().Elem().Kind() == reflect.Uint8 {
			if v.IsNil() {
				sb.WriteString("bytes(nil)")
				return
			}
			sb.WriteString("bytes(" + hex.EncodeToString(v.Bytes()) + ")")
			return
		}
		if v.IsNil() {
			sb.WriteString("[]nil")
			return
		}
		sb.WriteString("[")
		for i := 0; i < v.Len(); i++ {
			canonVal(sb, v.Index(i), depth+1)
			sb.WriteString(" ")
		}
		sb.WriteString("]")
	case reflect.Map:
		if v.IsNil() {
			sb.WriteString("map-nil")
			return
		}
		keys := v.MapKeys()
		sort.Slice(keys, func(i, j int) bool { return fmt.Sprint(keys[i]) < fmt.Sprint(keys[j]) })
		sb.WriteString("map[")
		for _, k := range keys {
			fmt.Fprintf(sb, "%v:", k)
			canonVal(sb, v.MapIndex(k), depth+1)
			sb.WriteString(" ")
		}
		sb.WriteString("]")
	case reflect.String:
		if n := v.Len(); n > 4096 {
			// a very long text is rendered by its length and digest (and its ends, for the reader of a report)
			t := v.String()
			fmt.Fprintf(sb, "text(%d bytes, sha %s, %q...%q)", n, sum([]byte(t)), t[:24], t[n-24:])
			return
		}
		fmt.Fprintf(sb, "%q", v.String())
	default:
		fmt.Fprintf(sb, "%v", v.Interface())
	}
}

func sum(b []byte) string {
	h := sha256.Sum256(b)
	return hex.EncodeToString(h[:8])
}

// ---------------------------------------------------------------- values

type vrng struct{ s uint64 }

func (r *vrng) next() uint64 {
	r.s += 0x9e3779b97f4a7c15
	z := r.s
	z = (z ^ (z >> 30)) * 0xbf58476d1ce4e5b9
	z = (z ^ (z >> 27)) * 0x94d049bb133111eb
	return z ^ (z >> 31)
}
func (r *vrng) intn(n int) int {
	if n <= 1 {
		return 0
	}
	return int(r.next() % uint64(n))
}
func (r *vrng) coin() bool { return r.next()&1 == 0 }

func payload(tag string, n int) []byte {
	b := make([]byte, n)
	seed := sha256.Sum256([]byte(tag))
	for i := range b {
		b[i] = seed[i%32] ^ byte(i) ^ byte(i>>8)
	}
	return b
}

func makeItem(tag string, r *vrng, invalid string) *api.Item {
	it := &api.Item{Name: "n-" + tag, Code: "abc-" + tag}
	switch r.intn(4) {
	case 0:
		it.Note.SetTo("note " + tag)
	case 1:
		// exactly as long as maxLength admits, counted in characters (twice as many bytes)
		it.Note.SetTo(strings.Repeat("é", 30-len(tag)) + tag)
	}
	if r.coin() {
		it.Level.SetTo(r.intn(1000000))
	}
	if r.coin() {
		it.Price.SetTo(float64(r.intn(4000)) * 0.25)
	}
	if r.coin() {
		it.Ratio.SetTo(float64(r.intn(4000)) * 0.5)
	}
	if r.coin() {
		it.Kind.SetTo([]api.ItemKind{api.ItemKindA, api.ItemKindB, api.ItemKindC}[r.intn(3)])
	}
	switch r.intn(3) {
	case 0:
		it.Flag.SetTo(r.coin())
	case 1:
		it.Flag.SetToNull()
	}
	// nullable members with a default: absent arrives as the default, null arrives as null, a value as itself
	switch r.intn(3) {
	case 0:
		it.Alias.SetTo("al-" + tag)
	case 1:
		it.Alias.SetToNull()
	}
	switch r.intn(3) {
	case 0:
		it.Retries.SetTo(r.intn(100))
	case 1:
		it.Retries.SetToNull()
	}
	if r.coin() {
		it.Data = payload(tag, 1+r.intn(300))
	}
	if r.coin() {
		it.When.SetTo(time.Unix(int64(1600000000+r.intn(100000000)), 0).UTC())
	}
	if r.coin() {
		for i, n := 0, 1+r.intn(3); i < n; i++ {
			it.Tags = append(it.Tags, fmt.Sprintf("t%d-%s", i, tag))
		}
	}
	if r.coin() {
		sub := api.ItemSub{ID: r.intn(1 << 30)}
		if r.coin() {
			sub.Label.SetTo("l-" + tag)
		}
		if r.coin() {
			sub.Nums = []int{r.intn(100), r.intn(100)}
		}
		it.Sub.SetTo(sub)
	}
	if r.coin() {
		m := api.ItemAttrs{}
		for i, n := 0, 1+r.intn(3); i < n; i++ {
			m[fmt.Sprintf("k%d", i)] = fmt.Sprintf("v%d-%s", i, tag)
		}
		it.Attrs.SetTo(m)
	}
	if r.coin() {
		m := api.ItemMeta{}
		for i, n := 0, 1+r.intn(3); i < n; i++ {
			m[fmt.Sprintf("m-%d-%s", i, tag)] = r.intn(1000)
		}
		it.Meta.SetTo(m)
	}
	if r.coin() {
		it.Tree.SetTo(makeTree(r, 0))
	}
	deep := func(bad api.Tree) api.Tree {
		// the offending node sits two levels down, behind members that lead back into the reference cycle
		return api.Tree{Label: api.NewOptString("top"), Kids: []api.Tree{{Label: api.NewOptString("mid"), Kids: []api.Tree{bad}}}}
	}
	switch invalid {
	case "treelabel":
		it.Tree.SetTo(deep(api.Tree{Label: api.NewOptString("")}))
	case "treelong":
		it.Tree.SetTo(deep(api.Tree{Label: api.NewOptString("elevenchars")}))
	case "twigsize":
		it.Tree.SetTo(api.Tree{Twigs: []api.Twig{{Size: api.NewOptInt(1), Backs: []api.Tree{{Twigs: []api.Twig{{Size: api.NewOptInt(10)}}}}}}})
	case "twiglabel":
		it.Tree.SetTo(api.Tree{Twigs: []api.Twig{{Backs: []api.Tree{{Label: api.NewOptString("")}}}}})
	case "maxprops":
		// more members than maxProperties admits, of which only some match the pattern: every member counts
		it.Meta.SetTo(api.ItemMeta{"m-a-" + tag: 1, "m-b-" + tag: 2, "note": 3, "owner": 4})
	case "pattern":
		it.Name = "N-UPPER-" + tag
	case "regexp2":
		it.Code = "tmp-" + tag
	case "multipleOf":
		it.Price.SetTo(0.3)
	case "multnear":
		// one unit in the last place away from a multiple: 2.5000000000000004 is not a multiple of 0.25
		m := float64(1+r.intn(4000)) * 0.25
		it.Price.SetTo(math.Nextafter(m, m+1))
		if r.coin() {
			it.Price.SetTo(math.Nextafter(m, m-1))
		}
	case "maxLength":
		it.Name = "n-" + tag + strings.Repeat("x", 220)
	case "enum":
		it.Kind.SetTo(api.ItemKind("zzz"))
	case "tagpattern":
		it.Tags = []string{"t1-" + tag, "BAD-" + tag}
	case "maxItems":
		it.Tags = []string{"t1-" + tag, "t2-" + tag, "t3-" + tag, "t4-" + tag, "t5-" + tag}
	case "unique":
		// the repeated member is the last one
		it.Tags = []string{"t1-" + tag, "t2-" + tag, "t3-" + tag, "t2-" + tag}
	case "notelong":
		it.Note.SetTo(strings.Repeat("n", 31-len(tag)) + tag)
	case "aliaslong":
		// a validator behind a nullable, optional wrapper
		it.Alias.SetTo("al-" + tag + strings.Repeat("x", 24))
	case "retriesbig":
		it.Retries.SetTo(101)
	case "ratioedge":
		// the bound itself, which exclusiveMinimum excludes
		it.Ratio.SetTo(-1000)
	case "subnum":
		// the offending member is the last one of an array inside a nested object
		it.Sub.SetTo(api.ItemSub{ID: 7, Nums: []int{1, 2, -1}})
	case "sublabel":
		it.Sub.SetTo(api.ItemSub{ID: 7, Label: api.NewOptString("l-" + tag + strings.Repeat("y", 40))})
	case "attrlong":
		// a validator on the values of a map
		it.Attrs.SetTo(api.ItemAttrs{"k0": "v0-" + tag, "k1": strings.Repeat("z", 65)})
	case "attrsempty":
		it.Attrs.SetTo(api.ItemAttrs{})
	}
	return it
}

// makeTree makes a valid value of the recursive schema (labels of 1-10 characters, sizes 0-9).
func makeTree(r *vrng, depth int) api.Tree {
	var t api.Tree
	if r.coin() {
		t.Label.SetTo("l" + strconv.Itoa(r.intn(100000)))
	}
	if depth < 3 {
		for i, n := 0, r.intn(3); i < n; i++ {
			t.Kids = append(t.Kids, makeTree(r, depth+1))
		}
		for i, n := 0, r.intn(2); i < n; i++ {
			tw := api.Twig{}
			if r.coin() {
				tw.Size.SetTo(r.intn(10))
			}
			if r.coin() {
				tw.Backs = append(tw.Backs, makeTree(r, depth+2))
			}
			t.Twigs = append(t.Twigs, tw)
		}
	}
	return t
}

// itemWithDefaults is the model of what the receiving side sees: absent members with a schema default
// arrive as that default (defaults are taken from worlds/x/world.yml, not from generated code).
func itemWithDefaults(in *api.Item) api.Item {
	it := *in
	if !it.Note.Set {
		it.Note.SetTo("none")
	}
	if !it.Level.Set {
		it.Level.SetTo(3)
	}
	if !it.Kind.Set {
		it.Kind.SetTo(api.ItemKindA)
	}
	if !it.Alias.Set {
		it.Alias.SetTo("anon")
	}
	if !it.Retries.Set {
		it.Retries.SetTo(3)
	}
	if it.Sub.Set && !it.Sub.Value.Label.Set {
		it.Sub.Value.Label.SetTo("lbl")
	}
	return it
}

// ---------------------------------------------------------------- server side: echo handler

type world struct {
	rec func(ctx context.Context) *srvInfo
}

func yield(ctx context.Context) {
	if si := srvFrom(ctx); si != nil {
		si.St.MaybeYield()
	}
}

func saw(ctx context.Context, v string) {
	if si := srvFrom(ctx); si != nil {
		si.Side.HandlerCalls++
		si.Side.ServerSaw = v
	}
}

type handler struct{}

var _ api.Handler = handler{}

func (handler) EchoJSON(ctx context.Context, req *api.Item, params api.EchoJSONParams) (*api.EchoHeaders, error) {
	yield(ctx)
	saw(ctx, canon(struct {
		Params api.EchoJSONParams
		Body   api.Item
	}{params, *req}))
	yield(ctx)
	res := &api.EchoHeaders{XEcho: "xe-" + params.XReq, Response: echoOf(req, params)}
	return res, nil
}

func echoOf(req *api.Item, params api.EchoJSONParams) api.Echo {
	e := api.Echo{ID: params.ID, Q: params.Q.Value, Tags: params.Tags, Xreq: params.XReq, Item: *req}
	if params.Sess.Set {
		e.Sess.SetTo(params.Sess.Value)
	}
	return e
}

func (handler) EchoJSONStream(ctx context.Context, req *api.Item) (*api.Item, error) {
	yield(ctx)
	saw(ctx, canon(*req))
	cp := *req
	return &cp, nil
}

func (handler) EchoForm(ctx context.Context, req *api.Form) (*api.Form, error) {
	yield(ctx)
	saw(ctx, canon(*req))
	cp := *req
	return &cp, nil
}

// mpMembers are the non-file members of the multipart body, each in another encoding: range as a form-style
// exploded object, deep as a deepObject, meta as a JSON part, labels as repeated parts.
type mpMembers struct {
	Range, Deep, Meta api.OptRange
	Labels            []string
}

type fileSeen struct {
	Name string
	Sum  string
	Len  int
	Err  string
}

func readFile(ctx context.Context, f ht.MultipartFile) fileSeen {
	var buf bytes.Buffer
	tmp := make([]byte, 61)
	fs := fileSeen{Name: f.Name}
	if _, ok := f.File.(*os.File); ok {
		if si := srvFrom(ctx); si != nil {
			si.Side.TempFiles++
		}
	}
	for {
		n, err := f.File.Read(tmp)
		buf.Write(tmp[:n])
		if err == io.EOF {
			break
		}
		if err != nil {
			fs.Err = "read error"
			break
		}
		if buf.Len()%1024 < 61 {
			yield(ctx)
		}
	}
	fs.Sum, fs.Len = sum(buf.Bytes()), buf.Len()
	return fs
}

func (handler) EchoMultipart(ctx context.Context, req *api.EchoMultipartReq) (*api.Upload, error) {
	yield(ctx)
	file := readFile(ctx, req.File)
	var extra fileSeen
	if req.Extra.Set {
		extra = readFile(ctx, req.Extra.Value)
	}
	members := canon(mpMembers{req.Range, req.Deep, req.Meta, req.Labels})
	saw(ctx, canon(struct {
		Name    string
		Count   api.OptInt
		File    fileSeen
		Extra   fileSeen
		HasEx   bool
		Members string
	}{req.Name, req.Count, file, extra, req.Extra.Set, members}))
	up := &api.Upload{Name: req.Name, Count: req.Count.Value, FileSum: file.Sum, FileLen: file.Len}
	up.Members.SetTo(members)
	up.FileName.SetTo(file.Name)
	if req.Extra.Set {
		up.ExtraSum.SetTo(extra.Sum)
		up.ExtraLen.SetTo(extra.Len)
	}
	return up, nil
}

func streamReader(kind string, b []byte) io.Reader {
	switch kind {
	case "onebyte":
		return iotest.OneByteReader(bytes.NewReader(b))
	case "dataerr":
		return iotest.DataErrReader(bytes.NewReader(b))
	case "half":
		return iotest.HalfReader(bytes.NewReader(b))
	}
	return bytes.NewReader(b)
}

func (handler) EchoStream(ctx context.Context, req api.EchoStreamReq, params api.EchoStreamParams) (*api.EchoStreamOKHeaders, error) {
	yield(ctx)
	var buf bytes.Buffer
	tmp := make([]byte, 113)
	rerr := ""
	for {
		n, err := req.Data.Read(tmp)
		buf.Write(tmp[:n])
		if err == io.EOF {
			break
		}
		if err != nil {
			rerr = "read error"
			break
		}
		if buf.Len()%2048 < 113 {
			yield(ctx)
		}
	}
	saw(ctx, canon(struct {
		XLen api.OptInt
		Sum  string
		Len  int
		Err  string
	}{params.XLen, sum(buf.Bytes()), buf.Len(), rerr}))
	if rerr != "" {
		return nil, errors.New("request stream broke")
	}
	kind := ""
	if si := srvFrom(ctx); si != nil && si.Call != nil {
		kind = si.Call.CallReader()
	}
	res := &api.EchoStreamOKHeaders{Response: api.EchoStreamOK{Data: streamReader(kind, buf.Bytes())}}
	res.XSum.SetTo(sum(buf.Bytes()))
	return res, nil
}

func (c *callInfo) CallReader() string {
	if c.Rec == nil {
		return ""
	}
	return c.Rec.Call.Reader
}

func (handler) EchoWild(ctx context.Context, req *api.EchoWildReqWithContentType) (*api.EchoWildOK, error) {
	yield(ctx)
	b, err := io.ReadAll(req.Content)
	rerr := ""
	if err != nil {
		rerr = "read error"
	}
	saw(ctx, canon(struct {
		CT  string
		Sum string
		Len int
		Err string
	}{req.ContentType, sum(b), len(b), rerr}))
	if err != nil {
		return nil, errors.New("request stream broke")
	}
	return &api.EchoWildOK{Sum: sum(b), Len: len(b), Ctype: req.ContentType}, nil
}

func (handler) EchoShapes(ctx context.Context, req *api.Shapes, params api.EchoShapesParams) (*api.Shapes, error) {
	yield(ctx)
	saw(ctx, canon(struct {
		Params api.EchoShapesParams
		Body   api.Shapes
	}{params, *req}))
	cp := *req
	return &cp, nil
}

func makeShapes(tag string, r *vrng) (*api.Shapes, api.Shapes) {
	sh := &api.Shapes{}
	var exp api.Shapes
	switch r.intn(3) {
	case 0:
		c := api.Circle{Kind: "circle", Radius: float64(r.intn(1000)) * 0.5}
		sh.Pick = api.NewCircleShapesPick(c)
	case 1:
		q := api.Square{Kind: "square", Side: r.intn(1000)}
		if r.coin() {
			q.Label.SetTo("lab-" + tag)
		}
		sh.Pick = api.NewSquareShapesPick(q)
	default:
		// a variant that declares nothing but the discriminator and carries its data as additional members
		l := api.Labels{Kind: "labels", AdditionalProps: api.LabelsAdditional{}}
		for i, n := 0, r.intn(4); i < n; i++ {
			l.AdditionalProps[fmt.Sprintf("l%d", i)] = fmt.Sprintf("lv%d-%s", i, tag)
		}
		sh.Pick = api.NewLabelsShapesPick(l)
	}
	switch r.intn(3) {
	case 0:
		sh.Mood.SetTo([]api.ShapesMood{api.ShapesMoodHappy, api.ShapesMoodSad}[r.intn(2)])
	case 1:
		sh.Mood.SetToNull()
	}
	if r.coin() {
		sh.Grid = [][]int{{r.intn(100), r.intn(100)}, {r.intn(100)}}
	}
	if r.coin() {
		m := api.ShapesThings{}
		for i, n := 0, 1+r.intn(3); i < n; i++ {
			th := api.Thing{N: r.intn(1000)}
			if r.coin() {
				th.S.SetTo("s-" + tag)
			}
			// entries differ in which optional members they carry
			if r.coin() {
				th.T.SetTo(fmt.Sprintf("t%d-%s", i, tag))
			}
			if r.coin() {
				tm := api.ThingM{}
				for j, k := 0, r.intn(3); j < k; j++ {
					tm[fmt.Sprintf("m%d-%d", i, j)] = r.intn(1000)
				}
				th.M.SetTo(tm)
			}
			m[fmt.Sprintf("th%d-%s", i, tag)] = th
		}
		sh.Things.SetTo(m)
	}
	if r.coin() {
		idx := api.ShapesIndex{}
		for i, n := 0, 1+r.intn(3); i < n; i++ {
			inner := api.ShapesIndexItem{}
			for j, k := 0, r.intn(3); j < k; j++ {
				inner[fmt.Sprintf("k%d-%d", i, j)] = fmt.Sprintf("v%d-%s", j, tag)
			}
			idx[fmt.Sprintf("ix%d", i)] = inner
		}
		sh.Index.SetTo(idx)
	}
	if r.coin() {
		sh.I32.SetTo(int32(r.intn(1<<31-1)) - 1<<30)
	}
	if r.coin() {
		sh.I64.SetTo(int64(1)<<60 + int64(r.intn(1<<30)))
	}
	if r.coin() {
		sh.F32.SetTo(float32(r.intn(100000)) * 0.25)
	}
	if r.coin() {
		sh.Day.SetTo(time.Date(2000+r.intn(40), time.Month(1+r.intn(12)), 1+r.intn(28), 0, 0, 0, 0, time.UTC))
	}
	if r.coin() {
		sh.Tod.SetTo(time.Date(0, 1, 1, r.intn(24), r.intn(60), r.intn(60), 0, time.UTC))
	}
	if r.coin() {
		// any duration: negative, shorter than a second, both
		sh.Dur.SetTo([]time.Duration{time.Duration(r.intn(100000)) * time.Second, -250 * time.Millisecond, 1500 * time.Millisecond, -time.Duration(1+r.intn(999)) * time.Microsecond, -time.Duration(1+r.intn(3600)) * time.Second, time.Duration(r.intn(1000000)) * time.Nanosecond, -1}[r.intn(7)])
	}
	if r.coin() {
		sh.UID.SetTo(uuid.NewMD5(uuid.Nil, []byte(tag)))
	}
	if r.coin() {
		sh.IP.SetTo(netip.AddrFrom4([4]byte{10, byte(r.intn(256)), byte(r.intn(256)), byte(1 + r.intn(250))}))
	}
	if r.coin() {
		if u, err := url.Parse("https://ex.test/p/" + tag + "?q=1&r=a%20b"); err == nil {
			sh.Link.SetTo(*u)
		}
	}
	switch r.intn(3) {
	case 0:
		sh.Maybe.SetTo("maybe " + tag)
	case 1:
		sh.Maybe.SetToNull()
	}
	switch r.intn(3) {
	case 0:
		sh.NumOrText.SetTo(api.NewFloat64ShapesNumOrText(float64(r.intn(1000)) * 0.125))
	case 1:
		sh.NumOrText.SetTo(api.NewStringShapesNumOrText("txt " + tag))
	}
	// the model: defaults applied on the receiving side
	exp = *sh
	if exp.Pick.Type == api.SquareShapesPick && !exp.Pick.Square.Label.Set {
		exp.Pick.Square.Label.SetTo("sq")
	}
	if exp.Things.Set {
		m := api.ShapesThings{}
		for k, th := range exp.Things.Value {
			if !th.S.Set {
				th.S.SetTo("th")
			}
			m[k] = th
		}
		exp.Things.SetTo(m)
	}
	return sh, exp
}

func paramsEcho(p api.EchoParamsParams) *api.EchoParamsOK {
	return &api.EchoParamsOK{Names: p.Names, Nums: p.Nums, Lab: p.Lab, Csv: p.Csv, Pipe: p.Pipe, One: p.One, Xlist: p.XList, Xone: p.XOne, Ck: p.Ck}
}

func (handler) EchoParams(ctx context.Context, params api.EchoParamsParams) (*api.EchoParamsOK, error) {
	yield(ctx)
	saw(ctx, canon(params))
	return paramsEcho(params), nil
}

func (handler) EchoItem(ctx context.Context, params api.EchoItemParams) (*api.EchoItemOK, error) {
	yield(ctx)
	saw(ctx, "name="+params.Name)
	return &api.EchoItemOK{Name: params.Name}, nil
}

func (handler) EchoItemRecent(ctx context.Context) (*api.EchoItemRecentOK, error) {
	yield(ctx)
	saw(ctx, "recent")
	return &api.EchoItemRecentOK{Name: "recent"}, nil
}

func (handler) EchoAny(ctx context.Context, req jx.Raw) (*api.EchoAnyOK, error) {
	yield(ctx)
	saw(ctx, fmt.Sprintf("present=%v raw=%s", req != nil, string(req)))
	out := &api.EchoAnyOK{Present: req != nil}
	if req != nil {
		out.Raw.SetTo(string(req))
	}
	return out, nil
}

// optSeen is what the handler of the operation with an optional body records.
type optSeen struct {
	Kind string // none | json | stream
	V    string
	Sum  string
	Len  int
	Err  string
}

func (handler) EchoOpt(ctx context.Context, req api.EchoOptReq) (*api.EchoOptOK, error) {
	yield(ctx)
	var seen optSeen
	switch b := req.(type) {
	case *api.EchoOptReqEmptyBody:
		seen.Kind = "none"
	case *api.EchoOptReqApplicationJSON:
		seen.Kind, seen.V = "json", b.V
	case *api.EchoOptReqApplicationOctetStream:
		seen.Kind = "stream"
		data, err := io.ReadAll(b.Data)
		seen.Sum, seen.Len = sum(data), len(data)
		if err != nil {
			seen.Err = "read error"
		}
	}
	saw(ctx, canon(seen))
	if seen.Err != "" {
		return nil, errors.New("stream broke")
	}
	out := &api.EchoOptOK{Kind: seen.Kind}
	if seen.Kind == "json" {
		out.V.SetTo(seen.V)
	}
	if seen.Kind == "stream" {
		out.Sum.SetTo(seen.Sum)
		out.Len.SetTo(seen.Len)
	}
	return out, nil
}

func (handler) EchoSeg(ctx context.Context, params api.EchoSegParams) (*api.EchoSegOK, error) {
	yield(ctx)
	saw(ctx, canon(params))
	return &api.EchoSegOK{From: params.From, To: params.To, Key: params.Key}, nil
}

// segTexts: values for parameters that share a path segment with literal text. The literals of the world's
// template /echo/seg/{from};{to}/v({key}) are ; ( ) - a value containing one of them may be refused, never changed;
// the other characters are no delimiters here and must arrive.
var segTexts = []string{"l;r", "a)b", "x(y", "p!q", "a,b", "it's", "st*r", "a;b)c(", "e=f", "g:h", "i@j", "k$l", "m&n", "o+p"}

// text values for parameters: the core domain (non-empty, without any style's delimiter) and values that
// contain a delimiter (which a side may refuse, but never change).
var coreTexts = []string{"a b", "x+y", "p%q", "u/v", "k=v", "q?r#s&t", "tab\there", "é✓ü", "100%", "a  b", "%41", "+", "~_-"}
var delimTexts = []string{"Smith, John", "a;b", "a.b", "a|b", ",", "x,", ";id=y", "a,b;c.d|e"}
var headerTexts = []string{"h v", "x+y", "p%q", "k=v", "q?r#s&t", "a  b", "%41", "(h)"}

func variantFor(want int, token string) (api.VariantsRes, error) {
	switch {
	case want == 200:
		return &api.Item{Name: "v-" + token, Code: "abc-" + token, Note: api.NewOptString("from variants")}, nil
	case want == 201:
		up := &api.UploadHeaders{Location: "/loc/" + token, Response: api.Upload{Name: token, Count: 1, FileSum: "s", FileLen: 2}}
		up.XCount.SetTo(len(token))
		return up, nil
	case want == 204:
		return &api.VariantsNoContent{}, nil
	case want >= 300 && want < 400:
		v := &api.Variants3XX{StatusCode: want, Location: "/r/" + token}
		if want%2 == 0 {
			v.XHops.SetTo(len(token))
		}
		return v, nil
	case want >= 400 && want < 500:
		p := &api.ProblemStatusCode{StatusCode: want, Response: api.Problem{Title: "problem " + token}}
		p.Response.Detail.SetTo("d-" + token)
		return p, nil
	case want >= 500:
		return nil, &api.ErrorStatusCode{StatusCode: want, Response: api.Error{Code: want, Message: "default " + token}}
	}
	return nil, errors.New("plain handler failure " + token)
}

func (handler) Variants(ctx context.Context, req *api.VariantsReq) (api.VariantsRes, error) {
	yield(ctx)
	saw(ctx, canon(*req))
	return variantFor(req.Want, req.Token)
}

type viaKey struct{}

func (handler) Secure(ctx context.Context, params api.SecureParams) (*api.SecureOK, error) {
	yield(ctx)
	via, _ := ctx.Value(viaKey{}).(string)
	saw(ctx, canon(struct {
		Params api.SecureParams
		Via    string
	}{params, via}))
	return &api.SecureOK{Who: params.Who, Via: via}, nil
}

func (handler) Secure2(ctx context.Context, params api.Secure2Params) (*api.Secure2OK, error) {
	yield(ctx)
	via, _ := ctx.Value(viaKey{}).(string)
	saw(ctx, canon(struct {
		Params api.Secure2Params
		Via    string
	}{params, via}))
	return &api.Secure2OK{Who: params.Who, Via: via}, nil
}

func (handler) NewError(ctx context.Context, err error) *api.ErrorStatusCode {
	var esc *api.ErrorStatusCode
	if errors.As(err, &esc) {
		return esc
	}
	// what a careful user writes: ogen's own errors (failed security, ...) keep their status, the rest is 500
	code := ogenerrors.ErrorCode(err)
	return &api.ErrorStatusCode{StatusCode: code, Response: api.Error{Code: code, Message: "handler failed"}}
}

// ---------------------------------------------------------------- security

type secHandler struct{}

func secCheck(ctx context.Context, scheme, value string) (context.Context, error) {
	yield(ctx)
	if si := srvFrom(ctx); si != nil {
		si.Side.SecurityCalls++
	}
	if !strings.HasPrefix(value, "good-") {
		return ctx, errors.New("bad credential")
	}
	// the order in which the server consults the schemes is not part of any property: keep the set sorted
	prev, _ := ctx.Value(viaKey{}).(string)
	parts := []string{scheme + "=" + value}
	if prev != "" {
		parts = append(parts, strings.Split(prev, "+")...)
	}
	sort.Strings(parts)
	return context.WithValue(ctx, viaKey{}, strings.Join(parts, "+")), nil
}

func (secHandler) HandleBasic(ctx context.Context, _ api.OperationName, t api.Basic) (context.Context, error) {
	return secCheck(ctx, "basic", t.Username+":"+t.Password)
}
func (secHandler) HandleBearer(ctx context.Context, _ api.OperationName, t api.Bearer) (context.Context, error) {
	return secCheck(ctx, "bearer", t.Token)
}
func (secHandler) HandleKeyHeader(ctx context.Context, _ api.OperationName, t api.KeyHeader) (context.Context, error) {
	return secCheck(ctx, "keyHeader", t.APIKey)
}
func (secHandler) HandleKeyQuery(ctx context.Context, _ api.OperationName, t api.KeyQuery) (context.Context, error) {
	return secCheck(ctx, "keyQuery", t.APIKey)
}

type secSource struct{}

func credOf(ctx context.Context) (string, string) {
	ci := infoFrom(ctx)
	if ci == nil {
		return "none", ""
	}
	ci.St.MaybeYield()
	return ci.Rec.Call.Cred, ci.Rec.Tag
}

func (secSource) Basic(ctx context.Context, _ api.OperationName) (api.Basic, error) {
	c, tag := credOf(ctx)
	if c == "basic+query" || c == "h+basic" {
		return api.Basic{Username: "good-u-" + tag, Password: "p-" + tag}, nil
	}
	return api.Basic{}, ogenerrors.ErrSkipClientSecurity
}
func (secSource) Bearer(ctx context.Context, _ api.OperationName) (api.Bearer, error) {
	c, tag := credOf(ctx)
	if c == "bearer" || c == "h+bearer" {
		return api.Bearer{Token: "good-b-" + tag}, nil
	}
	return api.Bearer{}, ogenerrors.ErrSkipClientSecurity
}
func (secSource) KeyHeader(ctx context.Context, _ api.OperationName) (api.KeyHeader, error) {
	c, tag := credOf(ctx)
	switch c {
	case "header", "h+basic", "h+bearer":
		return api.KeyHeader{APIKey: "good-h-" + tag}, nil
	case "wrong":
		return api.KeyHeader{APIKey: "evil-h-" + tag}, nil
	}
	return api.KeyHeader{}, ogenerrors.ErrSkipClientSecurity
}
func (secSource) KeyQuery(ctx context.Context, _ api.OperationName) (api.KeyQuery, error) {
	c, tag := credOf(ctx)
	if c == "basic+query" {
		return api.KeyQuery{APIKey: "good-q-" + tag}, nil
	}
	return api.KeyQuery{}, ogenerrors.ErrSkipClientSecurity
}

// ---------------------------------------------------------------- middleware

func recordingMiddleware(req middleware.Request, next middleware.Next) (middleware.Response, error) {
	if si := srvFrom(req.Context); si != nil {
		si.Side.MiddlewareOps++
		keys := make([]string, 0, len(req.Params))
		for k, v := range req.Params {
			keys = append(keys, fmt.Sprintf("%s/%s=%s", k.In, k.Name, canon(v)))
		}
		sort.Strings(keys)
		body := ""
		switch b := req.Body.(type) {
		case nil:
		case *api.Item:
			body = canon(*b)
		case *api.Form:
			body = canon(*b)
		case *api.VariantsReq:
			body = canon(*b)
		default:
			body = fmt.Sprintf("%T", b)
		}
		si.Side.MiddlewareSaw = req.OperationName + " " + strings.Join(keys, " ") + " | " + body
		si.St.MaybeYield()
	}
	return next(req)
}

// secondMiddleware sits behind the recording one (a chain of two): it only yields, so that other requests can
// be inside the chain at the same time, and notes the operation it was handed.
func secondMiddleware(req middleware.Request, next middleware.Next) (middleware.Response, error) {
	if si := srvFrom(req.Context); si != nil {
		si.Side.Middleware2Saw = req.OperationName
		si.St.MaybeYield()
	}
	return next(req)
}

// makeRange makes an object member for forms and multipart bodies: at least one of its members is set (a form
// has no way to carry an object without members).
func makeRange(tag string, r *vrng) api.Range {
	var g api.Range
	if r.coin() {
		g.Min.SetTo(r.intn(1000))
	}
	if r.coin() {
		g.Max.SetTo(1000 + r.intn(1000))
	}
	if r.coin() || (!g.Min.Set && !g.Max.Set) {
		g.Unit.SetTo("u-" + tag)
	}
	return g
}

// ---------------------------------------------------------------- client side: one call

func errClass(err error) string {
	if err == nil {
		return ""
	}
	var esc *api.ErrorStatusCode
	if errors.As(err, &esc) {
		return fmt.Sprintf("status:%d", esc.StatusCode)
	}
	if errors.Is(err, context.Canceled) {
		return "cancelled"
	}
	return "error"
}

// doCall performs the call and fills the record, including the model's expectation.
func doCall(ctx context.Context, c *api.Client, rec *CallRecord) {
	call := rec.Call
	tag := rec.Tag
	r := &vrng{s: call.V ^ 0xabcdef}
	switch call.Op {
	case "echoJSON":
		it := makeItem(tag, r, call.Invalid)
		params := api.EchoJSONParams{ID: int64(rec.Task*100000 + rec.Op), XReq: "xr-" + tag}
		if r.coin() {
			params.Q.SetTo("q " + tag + " &=?")
		}
		if r.coin() {
			params.Tags = []string{"qa-" + tag, "qb," + tag}
		}
		if r.coin() {
			// a second exploded array in the same query: each keeps its own members
			for i, n := 0, 1+r.intn(4); i < n; i++ {
				params.Ids = append(params.Ids, r.intn(100000))
			}
		}
		if r.coin() {
			params.Sess.SetTo("s-" + tag)
		}
		exp := itemWithDefaults(it)
		expParams := params
		if !expParams.Q.Set {
			expParams.Q.SetTo("dflt")
		}
		rec.ExpectServerSaw = canon(struct {
			Params api.EchoJSONParams
			Body   api.Item
		}{expParams, exp})
		rec.ExpectClientGot = canon(api.EchoHeaders{XEcho: "xe-" + params.XReq, Response: echoOf(&exp, expParams)})
		rec.ExpectStatus = 200
		if call.Invalid != "" {
			rec.ExpectStatus, rec.ExpectErrClass = 400, "error"
		}
		res, err := c.EchoJSON(ctx, it, params)
		finish(rec, res, err)
	case "echoJSONStream":
		it := makeItem(tag, r, call.Invalid)
		exp := itemWithDefaults(it)
		rec.ExpectServerSaw = canon(exp)
		rec.ExpectClientGot = canon(exp)
		rec.ExpectStatus = 200
		if call.Invalid != "" {
			rec.ExpectStatus, rec.ExpectErrClass = 400, "error"
		}
		res, err := c.EchoJSONStream(ctx, it)
		finish(rec, res, err)
	case "echoForm":
		f := &api.Form{Name: "f " + tag + " &=+%"}
		if r.coin() {
			f.Age.SetTo(r.intn(120))
		}
		if r.coin() {
			f.Nick.SetTo("nick-" + tag)
		}
		if r.coin() {
			f.Langs = []string{"go-" + tag, "c++ " + tag}
		}
		if r.coin() {
			for i, n := 0, 1+r.intn(4); i < n; i++ {
				f.Marks = append(f.Marks, r.intn(100))
			}
		}
		if r.coin() {
			f.Range.SetTo(makeRange(tag, r)) // form style, exploded: the members travel under their own names
		}
		if r.coin() {
			f.Deep.SetTo(makeRange(tag, r)) // deepObject: deep[min]=..
		}
		if call.Huge {
			// a member longer than ten MiB: a body of that size is delivered whole or refused, never cut
			big := strings.Repeat("0123456789abcdef", (10<<20)/16+r.intn(4096)) + "-end-" + tag
			if r.intn(3) == 0 {
				f.Langs = []string{big, "go-" + tag}
			} else {
				f.Nick.SetTo("nick-" + big)
			}
			rec.MayRefuse = true // refusing a body of that size is as good as delivering it
		}
		if call.Invalid != "" {
			f.Name = ""
			rec.ExpectStatus, rec.ExpectErrClass = 400, "error"
		} else {
			rec.ExpectStatus = 200
		}
		exp := *f
		if !exp.Age.Set {
			exp.Age.SetTo(18)
		}
		if !exp.Nick.Set {
			exp.Nick.SetTo("nn")
		}
		rec.ExpectServerSaw = canon(exp)
		rec.ExpectClientGot = canon(exp)
		res, err := c.EchoForm(ctx, f)
		finish(rec, res, err)
	case "echoMultipart":
		sizes := []int{0, 1, 10, 63, 64, 65, 700, 5000, 20000}
		fb := payload("file-"+tag, sizes[r.intn(len(sizes))])
		// file names: plain, with a blank, with non-ASCII letters, with both
		fname := []string{"f-" + tag + ".bin", "f " + tag + ".bin", "résumé-" + tag + ".pdf", "mon résumé " + tag + ".pdf", "f+" + tag + ";x=1.bin"}[r.intn(5)]
		req := &api.EchoMultipartReq{Name: "mp " + tag, File: ht.MultipartFile{Name: fname, File: streamReader(call.Reader, fb)}}
		expCount := api.NewOptInt(7)
		if r.coin() {
			req.Count.SetTo(r.intn(1000))
			expCount = req.Count
		}
		var eb []byte
		hasExtra := r.coin()
		exExtra := fileSeen{}
		if hasExtra {
			eb = payload("extra-"+tag, sizes[r.intn(len(sizes))])
			req.Extra.SetTo(ht.MultipartFile{Name: "e-" + tag + ".bin", File: bytes.NewReader(eb)})
			exExtra = fileSeen{Name: "e-" + tag + ".bin", Sum: sum(eb), Len: len(eb)}
		}
		if r.coin() {
			req.Range.SetTo(makeRange(tag, r))
		}
		if r.coin() {
			req.Deep.SetTo(makeRange(tag, r))
		}
		if r.coin() {
			req.Meta.SetTo(makeRange(tag, r)) // a JSON-encoded part; unset: no part at all (F-10, repaired)
		}
		if r.coin() {
			req.Labels = []string{"l1-" + tag, "l 2 " + tag}
		}
		members := canon(mpMembers{req.Range, req.Deep, req.Meta, req.Labels})
		rec.ExpectServerSaw = canon(struct {
			Name    string
			Count   api.OptInt
			File    fileSeen
			Extra   fileSeen
			HasEx   bool
			Members string
		}{req.Name, expCount, fileSeen{Name: fname, Sum: sum(fb), Len: len(fb)}, exExtra, hasExtra, members})
		up := api.Upload{Name: req.Name, Count: expCount.Value, FileSum: sum(fb), FileLen: len(fb)}
		up.Members.SetTo(members)
		up.FileName.SetTo(fname)
		if hasExtra {
			up.ExtraSum.SetTo(sum(eb))
			up.ExtraLen.SetTo(len(eb))
		}
		rec.ExpectClientGot = canon(up)
		rec.ExpectStatus = 200
		res, err := c.EchoMultipart(ctx, req)
		finish(rec, res, err)
	case "echoStream":
		sizes := []int{0, 1, 2, 100, 1000, 4096, 9000}
		b := payload("stream-"+tag, sizes[r.intn(len(sizes))])
		params := api.EchoStreamParams{}
		if r.coin() {
			params.XLen.SetTo(len(b))
		}
		rec.ExpectServerSaw = canon(struct {
			XLen api.OptInt
			Sum  string
			Len  int
			Err  string
		}{params.XLen, sum(b), len(b), ""})
		rec.ExpectClientGot = fmt.Sprintf("XSum=%s body=%s/%d", sum(b), sum(b), len(b))
		rec.ExpectStatus = 200
		res, err := c.EchoStream(ctx, api.EchoStreamReq{Data: streamReader(call.Reader, b)}, params)
		if err == nil {
			got, rerr := io.ReadAll(res.Response)
			if rerr != nil {
				err = rerr
			} else {
				rec.Returned = true
				rec.ClientGot = fmt.Sprintf("XSum=%s body=%s/%d", res.XSum.Value, sum(got), len(got))
				return
			}
		}
		finish(rec, nil, err)
	case "variants":
		wants := []int{200, 201, 204, 302, 307, 404, 418, 503, 0}
		want := wants[r.intn(len(wants))]
		req := &api.VariantsReq{Want: want, Token: tag}
		rec.ExpectServerSaw = canon(*req)
		v, herr := variantFor(want, tag)
		switch {
		case herr == nil:
			if it, ok := v.(*api.Item); ok {
				// defaults are applied on the receiving side, here the client
				d := itemWithDefaults(it)
				v = &d
			}
			rec.ExpectClientGot = fmt.Sprintf("%T:", v) + canon(v)
			rec.ExpectStatus = want
		case want >= 500:
			rec.ExpectStatus, rec.ExpectErrClass = want, fmt.Sprintf("status:%d", want)
		default:
			rec.ExpectStatus, rec.ExpectErrClass = 500, "status:500"
		}
		res, err := c.Variants(ctx, req)
		finish(rec, res, err, true)
	case "secure":
		params := api.SecureParams{Who: "w " + tag}
		via := map[string]string{
			"header":      "keyHeader=good-h-" + tag,
			"basic+query": "basic=good-u-" + tag + ":p-" + tag + "+keyQuery=good-q-" + tag,
			"bearer":      "bearer=good-b-" + tag,
		}[call.Cred]
		if via == "" {
			rec.ExpectStatus, rec.ExpectErrClass = 401, "error"
		} else {
			rec.ExpectStatus = 200
			rec.ExpectServerSaw = canon(struct {
				Params api.SecureParams
				Via    string
			}{params, via})
			rec.ExpectClientGot = canon(api.SecureOK{Who: params.Who, Via: via})
		}
		res, err := c.Secure(ctx, params)
		finish(rec, res, err)
	case "echoWild":
		cts := []string{"application/octet-stream", "application/x-sim", "application/vnd.sim+bin", "application/json"}
		ct := cts[r.intn(len(cts))]
		sizes := []int{0, 1, 50, 3000}
		b := payload("wild-"+tag, sizes[r.intn(len(sizes))])
		rec.ExpectServerSaw = canon(struct {
			CT  string
			Sum string
			Len int
			Err string
		}{ct, sum(b), len(b), ""})
		rec.ExpectClientGot = canon(api.EchoWildOK{Sum: sum(b), Len: len(b), Ctype: ct})
		rec.ExpectStatus = 200
		res, err := c.EchoWild(ctx, &api.EchoWildReqWithContentType{ContentType: ct, Content: api.EchoWildReq{Data: streamReader(call.Reader, b)}})
		finish(rec, res, err)
	case "echoParams":
		delim := call.Invalid == "delim"
		text := func() string {
			if delim && r.intn(2) == 0 {
				return delimTexts[r.intn(len(delimTexts))] + " " + tag
			}
			return coreTexts[r.intn(len(coreTexts))] + " " + tag
		}
		list := func(n int) []string {
			var out []string
			for i := 0; i < n; i++ {
				out = append(out, text())
			}
			return out
		}
		params := api.EchoParamsParams{Names: list(1 + r.intn(3)), Lab: list(1 + r.intn(3))}
		for i, n := 0, 1+r.intn(3); i < n; i++ {
			params.Nums = append(params.Nums, r.intn(1<<30)-(1<<29))
		}
		if r.coin() {
			params.Csv = list(1 + r.intn(3))
		}
		if r.coin() {
			params.Pipe = list(1 + r.intn(3))
		}
		if r.coin() {
			params.One.SetTo(text())
		}
		if r.coin() {
			for i, n := 0, 1+r.intn(3); i < n; i++ {
				h := headerTexts[r.intn(len(headerTexts))] + " " + tag
				if delim && r.intn(2) == 0 {
					h = "x, y " + tag
				}
				params.XList = append(params.XList, h)
			}
			// white space next to an interior comma travels (HTTP trims the outer edges of the whole value only)
			for i := range params.XList {
				if i > 0 && r.intn(3) == 0 {
					params.XList[i] = " " + params.XList[i]
				}
				if i < len(params.XList)-1 && r.intn(3) == 0 {
					params.XList[i] += " "
				}
			}
		}
		if r.coin() {
			params.XOne.SetTo(headerTexts[r.intn(len(headerTexts))] + " " + tag)
		}
		if r.coin() {
			params.Ck.SetTo(text())
		}
		rec.MayRefuse = delim
		rec.Call.Invalid = "" // not an invalid request in the validation sense
		rec.ExpectServerSaw = canon(params)
		rec.ExpectClientGot = canon(*paramsEcho(params))
		rec.ExpectStatus = 200
		res, err := c.EchoParams(ctx, params)
		finish(rec, res, err)
	case "echoItem":
		// a parameter whose sibling in the route tree is a static leaf (/echo/item/recent): names that begin like it
		name := []string{"it-" + tag, "recent" + tag, "recen", "recentX", "rec ent " + tag, "r"}[r.intn(6)]
		rec.ExpectServerSaw = "name=" + name
		rec.ExpectClientGot = canon(api.EchoItemOK{Name: name})
		rec.ExpectStatus = 200
		res, err := c.EchoItem(ctx, api.EchoItemParams{Name: name})
		finish(rec, res, err)
	case "echoItemRecent":
		rec.ExpectServerSaw = "recent"
		rec.ExpectClientGot = canon(api.EchoItemRecentOK{Name: "recent"})
		rec.ExpectStatus = 200
		res, err := c.EchoItemRecent(ctx)
		finish(rec, res, err)
	case "echoAny":
		// an optional body of any JSON type: absent, or a value - of which null is one
		raws := []string{"", "null", "1", `"s t"`, `{"a":[1,null]}`, "[]", "false"}
		raw := raws[r.intn(len(raws))]
		var req jx.Raw
		out := api.EchoAnyOK{}
		if raw != "" {
			req = jx.Raw(raw)
			out.Present = true
			out.Raw.SetTo(raw)
		}
		rec.ExpectServerSaw = fmt.Sprintf("present=%v raw=%s", req != nil, raw)
		rec.ExpectClientGot = canon(out)
		rec.ExpectStatus = 200
		res, err := c.EchoAny(ctx, req)
		finish(rec, res, err)
	case "echoOpt":
		// an operation whose body is optional: nothing, a JSON object, or a stream of unknown length
		var req api.EchoOptReq
		var seen optSeen
		out := api.EchoOptOK{}
		switch r.intn(3) {
		case 0:
			req, seen.Kind = &api.EchoOptReqEmptyBody{}, "none"
		case 1:
			v := "v " + tag
			req, seen.Kind, seen.V = &api.EchoOptReqApplicationJSON{V: v}, "json", v
			out.V.SetTo(v)
		default:
			b := payload("opt-"+tag, []int{1, 10, 700, 5000}[r.intn(4)])
			req = &api.EchoOptReqApplicationOctetStream{Data: streamReader(call.Reader, b)}
			seen.Kind, seen.Sum, seen.Len = "stream", sum(b), len(b)
			out.Sum.SetTo(seen.Sum)
			out.Len.SetTo(seen.Len)
		}
		out.Kind = seen.Kind
		rec.HasBody = seen.Kind != "none"
		rec.ExpectServerSaw = canon(seen)
		rec.ExpectClientGot = canon(out)
		rec.ExpectStatus = 200
		res, err := c.EchoOpt(ctx, req)
		finish(rec, res, err)
	case "echoSeg":
		text := func() string {
			if r.intn(2) == 0 {
				return segTexts[r.intn(len(segTexts))] + tag
			}
			return coreTexts[r.intn(len(coreTexts))] + " " + tag
		}
		params := api.EchoSegParams{From: text(), To: text(), Key: text()}
		rec.MayRefuse = strings.ContainsAny(params.From+params.To+params.Key, ";()")
		rec.ExpectServerSaw = canon(params)
		rec.ExpectClientGot = canon(api.EchoSegOK{From: params.From, To: params.To, Key: params.Key})
		rec.ExpectStatus = 200
		res, err := c.EchoSeg(ctx, params)
		finish(rec, res, err)
	case "echoShapes":
		sh, exp := makeShapes(tag, r)
		params := api.EchoShapesParams{Kind: []api.EchoShapesKind{api.EchoShapesKindAlpha, api.EchoShapesKindBeta, api.EchoShapesKindGamma}[r.intn(3)], XNum: int64(1)<<55 + int64(r.intn(1000))}
		if r.coin() {
			f := api.EchoShapesFilter{}
			if r.coin() {
				f.Status.SetTo("st " + tag + " &=")
			}
			if r.coin() {
				f.Min.SetTo(r.intn(100))
			}
			if r.coin() {
				f.Flag.SetTo(r.coin())
			}
			if f.Status.Set || f.Min.Set || f.Flag.Set {
				params.Filter.SetTo(f)
			}
		}
		if r.coin() {
			params.When.SetTo(time.Date(2001+r.intn(30), time.Month(1+r.intn(12)), 1+r.intn(28), 0, 0, 0, 0, time.UTC))
		}
		if r.coin() {
			params.ID.SetTo(uuid.NewMD5(uuid.Nil, []byte("p"+tag)))
		}
		if r.coin() {
			params.N32.SetTo(int32(r.intn(1 << 30)))
		}
		if r.coin() {
			params.Ratio.SetTo(float32(r.intn(10000)) * 0.5)
		}
		if r.coin() {
			params.XFlag.SetTo(r.coin())
		}
		if r.coin() {
			params.Cnum.SetTo(r.intn(1 << 30))
		}
		if r.coin() {
			params.Link.SetTo(url.URL{Scheme: "https", Host: "h" + strconv.Itoa(r.intn(1000)) + ".test", Path: "/p/" + strconv.Itoa(r.intn(1000)), RawQuery: "a=1&b=x+y"})
		}
		if r.coin() {
			params.At.SetTo(time.Date([]int{1, 1969, 2001, 2038, 2300, 9999}[r.intn(6)], time.Month(1+r.intn(12)), 1+r.intn(28), r.intn(24), r.intn(60), r.intn(60), 0, time.UTC))
		}
		if r.coin() {
			params.Addr.SetTo(netip.AddrFrom4([4]byte{byte(1 + r.intn(200)), byte(r.intn(256)), byte(r.intn(256)), byte(1 + r.intn(200))}))
		}
		if r.coin() {
			params.Dur.SetTo([]time.Duration{time.Duration(1+r.intn(100000)) * time.Second, -250 * time.Millisecond, 1500 * time.Millisecond, -time.Duration(1+r.intn(3600)) * time.Second, -1}[r.intn(5)])
		}
		if r.coin() {
			params.Obj.SetTo(api.Pair{Role: api.NewOptString("ro-" + tag), Name: api.NewOptString("na " + tag)})
		}
		if r.coin() {
			p := api.Pair{Role: api.NewOptString("hr-" + tag)}
			if r.coin() {
				p.Name.SetTo("hn-" + tag)
			}
			params.XObj.SetTo(p)
		}
		if r.coin() {
			params.Lvl.SetTo(int8(r.intn(256) - 128))
		}
		if r.coin() {
			params.XCnt.SetTo(int16(r.intn(65536) - 32768))
		}
		if r.coin() {
			params.U8.SetTo(uint8(r.intn(256)))
		}
		if r.coin() {
			params.U16s = []uint16{uint16(r.intn(65536)), 0, 65535}
		}
		if r.coin() {
			// any finite number: the text form must carry every digit
			params.Big.SetTo([]float64{0.1 + 0.2, 1e-11, 123456789.12345679, -1.7976931348623157e308, 5e-324, float64(r.intn(1<<30)) / 3}[r.intn(6)])
		}
		expParams := params
		if !expParams.N32.Set {
			expParams.N32.SetTo(7)
		}
		rec.ExpectServerSaw = canon(struct {
			Params api.EchoShapesParams
			Body   api.Shapes
		}{expParams, exp})
		rec.ExpectClientGot = canon(exp)
		rec.ExpectStatus = 200
		res, err := c.EchoShapes(ctx, sh, params)
		finish(rec, res, err)
	case "secure2":
		params := api.Secure2Params{Who: "w2 " + tag}
		via := map[string]string{
			"h+basic":  "basic=good-u-" + tag + ":p-" + tag + "+keyHeader=good-h-" + tag,
			"h+bearer": "bearer=good-b-" + tag + "+keyHeader=good-h-" + tag,
		}[call.Cred]
		if via == "" {
			rec.ExpectStatus, rec.ExpectErrClass = 401, "error"
		} else {
			rec.ExpectStatus = 200
			rec.ExpectServerSaw = canon(struct {
				Params api.Secure2Params
				Via    string
			}{params, via})
			rec.ExpectClientGot = canon(api.Secure2OK{Who: params.Who, Via: via})
		}
		res, err := c.Secure2(ctx, params)
		finish(rec, res, err)
	default:
		rec.ClientErr, rec.ClientErrClass = "unknown op", "harness"
	}
}

func finish(rec *CallRecord, res any, err error, variant ...bool) {
	rec.Returned = true
	if err != nil {
		rec.ClientErr = firstLine(err.Error())
		rec.ClientErrClass = errClass(err)
		return
	}
	v := reflect.ValueOf(res)
	if v.Kind() == reflect.Pointer && !v.IsNil() {
		if len(variant) > 0 && variant[0] {
			rec.ClientGot = fmt.Sprintf("%T:", res) + canon(res) // keeps the variant's type
			return
		}
		rec.ClientGot = canon(v.Elem().Interface())
		return
	}
	rec.ClientGot = canon(res)
}

func firstLine(s string) string {
	if i := strings.IndexByte(s, '\n'); i >= 0 {
		s = s[:i]
	}
	if len(s) > 300 {
		s = s[:300]
	}
	return s
}

// newPair builds one client and one server sharing a SimTransport.
func newPair(t *SimTransport, maxMultipartMemory int64) (*api.Client, error) {
	srv, err := api.NewServer(handler{}, secHandler{},
		api.WithMiddleware(recordingMiddleware, secondMiddleware),
		api.WithErrorHandler(SimErrorHandler),
		api.WithMaxMultipartMemory(maxMultipartMemory),
	)
	if err != nil {
		return nil, err
	}
	t.Handler = srv
	return api.NewClient("http://sim.test", secSource{}, api.WithClient(t))
}
