// Package xsim is the exchange simulation harness (C19, C01, C15): N client tasks share ONE regenerated
// client and ONE regenerated server, which talk over simulated links inside a testing/synctest bubble.
// Every interleaving decision, chunk size, delay and fault comes from the scenario; the harness records
// what each side saw. Oracles are applied by the driver.
package xsim

import (
	"context"
	crand "crypto/rand"
	"crypto/sha256"
	"encoding/hex"
	"encoding/json"
	"fmt"
	"os"
	"runtime"
	"sort"
	"strings"
	"sync"
	"sync/atomic"
	"syscall"
	"testing"
	"testing/synctest"
	"time"

	"github.com/ogen-go/ogen/simrt"
)

// Scenario is one complete, explicit simulated run.
type Scenario struct {
	ID    string   `json:"id"`
	Seed  uint64   `json:"seed"`
	Tasks [][]Call `json:"tasks"`

	YieldP   float64 `json:"yield_p"`
	MaxDelay int     `json:"max_delay"`
	MinChunk int     `json:"min_chunk"`
	MaxChunk int     `json:"max_chunk"`

	MaxMultipartMemory int64 `json:"max_multipart_memory"`
	PoolPolicy         int   `json:"pool_policy"`
	Poison             bool  `json:"poison"`
	Procs              int   `json:"gomaxprocs"`
	MapPolicy          int   `json:"map_policy"`
	SkipAlone          bool  `json:"skip_alone,omitempty"`
}

// Result of one scenario.
type Result struct {
	Aborted     bool          `json:"aborted,omitempty"` // the scenario's goroutine was ended by the testing package (race detected in the bubble)
	ID          string        `json:"id"`
	Alone       []*CallRecord `json:"alone,omitempty"` // each call run alone on a fresh pair, trivial schedule, no faults
	Conc        []*CallRecord `json:"conc"`
	Deadlock    string        `json:"deadlock,omitempty"`
	Panic       string        `json:"panic,omitempty"`
	ToolTrouble string        `json:"tool_trouble,omitempty"`
	Yields      int           `json:"yields"`
	Streams     int           `json:"streams"`
	SchedHash   string        `json:"sched_hash"`
	Switches    int           `json:"switches"`
	SyncPoints  int           `json:"sync_points"`
	SyncYields  int           `json:"sync_yields"`
	FakeNS      int64         `json:"fake_ns"`
	WallMS      int64         `json:"wall_ms"`
	PoolReused  int           `json:"pool_reused"`
	PoolPoison  int           `json:"pool_poisoned"`
	TempFiles   int           `json:"temp_files"` // multipart parts spilled to disk
	Trace       []string      `json:"trace,omitempty"`
}

type job struct {
	Scenarios []Scenario `json:"scenarios"`
	Out       string     `json:"out"`
}

// seededRand replaces crypto/rand.Reader for the run (multipart boundaries, N7).
// It must be safe for concurrent use, like the real one: a call takes a ticket atomically and derives its
// bytes from (seed, ticket), so the bytes depend on the order of calls only, which the schedule fixes.
type seededRand struct {
	seed   uint64
	ticket atomic.Uint64
}

func (s *seededRand) Read(p []byte) (int, error) {
	r := vrng{s: s.seed ^ (s.ticket.Add(1) * 0x9e3779b97f4a7c15)}
	for i := range p {
		p[i] = byte(r.next())
	}
	return len(p), nil
}

func tagOf(task, op int, v uint64) string { return fmt.Sprintf("t%d-o%d-%04x", task, op, v&0xffff) }

// runPhase runs the given tasks concurrently on one fresh client/server pair inside a bubble.
func runPhase(t *testing.T, sc *Scenario, tasks [][]Call, faults bool, trivial bool, phase string, origin [2]int, alone map[[2]int]*CallRecord) (recs []*CallRecord, res phaseInfo) {
	cfg := &simrt.Config{
		Seed: sc.Seed, DefaultPolicy: simrt.Policy(sc.MapPolicy), Sched: true, YieldP: sc.YieldP, MaxDelay: sc.MaxDelay,
		Trace: !trivial, PoolPolicy: sc.PoolPolicy, Poison: sc.Poison,
	}
	minC, maxC := sc.MinChunk, sc.MaxChunk
	if trivial {
		cfg.YieldP, cfg.MaxDelay, cfg.PoolPolicy = 0, 1, 0
		minC, maxC = 1<<20, 1<<20
	}
	simrt.Install(cfg)
	oldRand := crand.Reader
	crand.Reader = &seededRand{seed: sc.Seed ^ 0x5151}
	defer func() { crand.Reader = oldRand }()

	for ti, calls := range tasks {
		for oi, c := range calls {
			ti, oi := ti+origin[0], oi+origin[1]
			rec := &CallRecord{Task: ti, Op: oi, Call: c, Tag: tagOf(ti, oi, c.V)}
			if !faults {
				rec.Call.Fault = nil
			} else if f := c.Fault; f != nil && f.Frac > 0 {
				// resolve the relative offset against the wire length measured when the call ran alone
				g := *f
				if a := alone[[2]int{ti, oi}]; a != nil {
					total := a.ReqBytes
					if strings.HasSuffix(f.Kind, "-resp") {
						total = a.RespBytes
					}
					g.At = total * f.Frac / 1000
				}
				rec.Call.Fault = &g
			}
			recs = append(recs, rec)
		}
	}
	defer func() {
		if p := recover(); p != nil {
			buf := make([]byte, 1<<18)
			n := runtime.Stack(buf, true)
			res.deadlock = fmt.Sprint(p) + "\n" + string(buf[:n])
		}
		for _, r := range recs {
			r.seal()
		}
	}()
	synctest.Test(t, func(t *testing.T) {
		start := time.Now()
		var wg sync.WaitGroup // transport tasks
		tr := &SimTransport{MinChunk: minC, MaxChunk: maxC, WG: &wg}
		client, err := newPair(tr, sc.MaxMultipartMemory)
		if err != nil {
			res.trouble = err.Error()
			return
		}
		var cwg sync.WaitGroup
		idx := 0
		for ti, calls := range tasks {
			mine := recs[idx : idx+len(calls)]
			idx += len(calls)
			cwg.Add(1)
			st := simrt.NewStream(fmt.Sprintf("%s.client%d", phase, ti))
			go func(ti int, mine []*CallRecord) {
				defer cwg.Done()
				defer simrt.Bind(st)()
				for _, rec := range mine {
					st.Yield()
					func() {
						defer func() {
							if p := recover(); p != nil {
								rec.Returned = true
								rec.ClientErr, rec.ClientErrClass = fmt.Sprint("client panic: ", p), "panic"
							}
						}()
						ctx, cancel := context.WithCancel(context.Background())
						defer cancel()
						ci := &callInfo{Task: rec.Task, Op: rec.Op, Fault: rec.Call.Fault, St: st, Rec: rec}
						ctx = context.WithValue(ctx, callKey{}, ci)
						if f := rec.Call.Fault; f != nil && f.Kind == "cancel" {
							// the canceller is a task of its own: it cancels after f.At of its yields
							cst := simrt.NewStream(fmt.Sprintf("%s.cancel.t%d.o%d", phase, rec.Task, rec.Op))
							var done atomic.Bool
							defer done.Store(true)
							tr.WG.Add(1)
							go func() {
								defer tr.WG.Done()
								for i := 0; i < f.At; i++ {
									cst.Yield()
									if done.Load() {
										return
									}
								}
								rec.fire()
								cancel()
							}()
						}
						doCall(ctx, client, rec)
					}()
				}
			}(ti, mine)
		}
		cwg.Wait()
		wg.Wait()
		// Let regexp2's timeout clock goroutine finish on the fake clock. Its bookkeeping is process-wide and
		// measured from the first bubble's start, and every bubble restarts the fake clock at the same instant,
		// so it may have to run until the longest earlier bubble's working time plus the match timeout.
		work := time.Since(start)
		if work > maxWork {
			maxWork = work
		}
		res.fake = work
		time.Sleep(maxWork + 30*time.Second)
	})
	return recs, res
}

// maxWork is the longest working time (fake) of any bubble of this process; touched between bubbles only.
var maxWork time.Duration

type phaseInfo struct {
	deadlock string
	trouble  string
	fake     time.Duration
}

func runScenario(t *testing.T, sc Scenario) Result {
	t0 := time.Now()
	res := Result{ID: sc.ID}
	procs := sc.Procs
	if procs <= 0 {
		procs = 4
	}
	prev := runtime.GOMAXPROCS(procs)
	defer runtime.GOMAXPROCS(prev)

	aloneBy := map[[2]int]*CallRecord{}
	if !sc.SkipAlone {
		// each call alone: a fresh pair per call, trivial schedule, no faults
		for ti, calls := range sc.Tasks {
			for oi, c := range calls {
				recs, pi := runPhase(t, &sc, [][]Call{{c}}, false, true, "alone", [2]int{ti, oi}, nil)
				if pi.trouble != "" {
					res.ToolTrouble = pi.trouble
					return res
				}
				if pi.deadlock != "" {
					res.Deadlock = "alone phase: " + pi.deadlock
				}
				res.Alone = append(res.Alone, recs[0])
				aloneBy[[2]int{ti, oi}] = recs[0]
			}
		}
	}

	recs, pi := runPhase(t, &sc, sc.Tasks, true, false, "conc", [2]int{}, aloneBy)
	res.Conc = recs
	res.Deadlock += pi.deadlock
	res.ToolTrouble = pi.trouble
	res.FakeNS = pi.fake.Nanoseconds()

	streams := simrt.Streams()
	res.Streams = len(streams)
	type ev struct {
		at int64
		s  int
	}
	var evs []ev
	for i, st := range streams {
		res.Yields += st.Yields
		for _, w := range st.Wakes {
			evs = append(evs, ev{w, i})
		}
	}
	sort.Slice(evs, func(i, j int) bool { return evs[i].at < evs[j].at })
	h := sha256.New()
	last := -1
	for _, e := range evs {
		fmt.Fprintf(h, "%d:%s;", e.at, streams[e.s].Name)
		if last >= 0 && last != e.s {
			res.Switches++
		}
		last = e.s
	}
	res.SchedHash = hex.EncodeToString(h.Sum(nil)[:8])
	if os.Getenv("VERIF_SIM_TRACE") != "" {
		for _, e := range evs {
			res.Trace = append(res.Trace, fmt.Sprintf("%d %s", e.at, streams[e.s].Name))
		}
	}
	_, res.PoolReused, _, res.PoolPoison = simrt.PoolCounters()
	for _, r := range res.Conc {
		for _, sd := range r.Sides {
			res.TempFiles += sd.TempFiles
		}
	}
	res.SyncPoints, res.SyncYields = int(simrt.SyncPoints.Load()), int(simrt.SyncYields.Load())
	simrt.Install(nil)
	res.WallMS = time.Since(t0).Milliseconds()
	return res
}

func TestSim(t *testing.T) {
	jp := os.Getenv("VERIF_SIM_JOB")
	if jp == "" {
		t.Skip("no VERIF_SIM_JOB")
	}
	b, err := os.ReadFile(jp)
	if err != nil {
		t.Fatal(err)
	}
	var j job
	if err := json.Unmarshal(b, &j); err != nil {
		t.Fatal(err)
	}
	out, err := os.OpenFile(j.Out, os.O_CREATE|os.O_WRONLY|os.O_APPEND, 0o644)
	if err != nil {
		t.Fatal(err)
	}
	defer out.Close()
	for i, sc := range j.Scenarios {
		fmt.Fprintf(os.Stderr, "\nSCENARIO-BEGIN %d %s\n", i, sc.ID)
		// Each scenario is a subtest: when the race detector fails the bubble's test, testing ends the calling
		// goroutine (FailNow); as a subtest that ends only this scenario, and its result line is still written.
		t.Run(fmt.Sprint(i), func(t *testing.T) {
			res := Result{ID: sc.ID, Aborted: true}
			defer func() {
				fmt.Fprintf(os.Stderr, "\nSCENARIO-END %d %s\n", i, sc.ID)
				line, _ := json.Marshal(res)
				_, _ = out.Write(append(line, '\n'))
			}()
			wd := time.AfterFunc(5*time.Minute, func() {
				buf := make([]byte, 1<<20)
				n := runtime.Stack(buf, true)
				fmt.Fprintf(os.Stderr, "\nWATCHDOG scenario %d %s stalled\n%s\n", i, sc.ID, buf[:n])
				syscall.Exit(3)
			})
			defer wd.Stop()
			res = runScenario(t, sc)
		})
	}
}
