package xsim

import (
	"bufio"
	"bytes"
	"context"
	"crypto/sha256"
	"encoding/hex"
	"errors"
	"fmt"
	"io"
	"mime"
	"mime/multipart"
	"net/http"
	"net/url"
	"regexp"
	"sort"
	"strconv"
	"strings"
	"sync"
	"sync/atomic"

	"github.com/ogen-go/ogen/ogenerrors"
	"github.com/ogen-go/ogen/simrt"
)

// Fault is the link fault of one call.
type Fault struct {
	Kind string `json:"kind"`
	At   int    `json:"at"`
	Frac int    `json:"frac,omitempty"` // > 0: At is this many per-mille of the wire length measured when the call ran alone
	Arg  string `json:"arg,omitempty"`
	Val  string `json:"val,omitempty"`
}

// Fault kinds:
//
//	cut-req     the request connection is closed at wire offset At (server sees EOF there)
//	reset-req   the server's read fails with an error at wire offset At
//	cut-resp    the response connection is closed at wire offset At
//	reset-resp  the client's read of the response fails at wire offset At
//	cancel      the client's context is cancelled after At scheduler quanta
//	writer-fail the server's ResponseWriter.Write fails after At body bytes (client gone)
//	dup         the whole request is delivered twice (retrying intermediary); the client gets the first answer
//	replay      the connection is lost before any response byte; the request is sent again from GetBody
//	ctype       the Content-Type header is replaced by Arg ("" = removed)
//	method      the method is replaced by Arg
//	drop-header the request header named Arg is removed in flight
//	dup-header  the request header named Arg is duplicated in flight
//	drop-query  the query parameter named Arg is removed in flight
//	mangle      an intermediary rewrites one piece of the request head: Arg says which ("query:name", "header:Name",
//	            "cookie:name", "path:i" = i-th path segment, "path:glue" = the slash behind the mount prefix Val is lost, or by position "query#i", "header#i", "cookie#i"), Val is
//	            the new text (for query and path: as it goes on the wire, i.e. already escaped - or deliberately not)
//	lie-length  the request head declares a Content-Length of Arg (absurdly large) although the body is as short as it
//	            is; the connection breaks after the last body byte (an oversized declared size)
//	add-query   the raw query pair Arg is appended to the request line
//	dup-query   the query parameter named Arg (or "#i": the i-th) is sent twice
//	flip        the byte at wire offset At of the request is XORed with 0x20 (unstructured corruption)
//	append      a re-framing intermediary forwards the request with Arg appended to the body (framing stays valid)
//	drop-field  a re-framing intermediary loses the form field / multipart part named Arg (and, if Val is set, appends the
//	            raw query pair Val to the request line)
//	dup-field   a re-framing intermediary repeats the form field / multipart part named Arg

type callKey struct{}

// callInfo travels in the client's context so that the transport and callbacks know whose call this is.
type callInfo struct {
	Task, Op int
	Name     string
	Fault    *Fault
	St       *simrt.Stream // the client task's stream
	Rec      *CallRecord

	srvCancel atomic.Pointer[context.CancelFunc] // cancels the serving side's request context
}

func infoFrom(ctx context.Context) *callInfo {
	ci, _ := ctx.Value(callKey{}).(*callInfo)
	return ci
}

// ServerSide is what one delivery of a request produced on the server.
type ServerSide struct {
	Delivered     bool   `json:"delivered"` // ServeHTTP was entered
	ParseErr      string `json:"parse_err,omitempty"`
	Panic         string `json:"panic,omitempty"`
	Status        int    `json:"status"`
	WriteHeaders  int    `json:"write_headers"` // explicit WriteHeader calls
	Commits       int    `json:"commits"`       // times a header block was committed (must be 1)
	Explicit      bool   `json:"explicit"`      // the server wrote something itself (WriteHeader or Write)
	BodyBytes     int    `json:"body_bytes"`
	WritesAfter   int    `json:"writes_after_return"`
	WriteErrs     int    `json:"write_errs"`
	HandlerCalls  int    `json:"handler_calls"`
	MiddlewareOps int    `json:"middleware_calls"`
	ServerSaw     string `json:"server_saw,omitempty"`
	MiddlewareSaw string `json:"middleware_saw,omitempty"`
	ErrBody       string `json:"err_body,omitempty"` // start of the body of a 4xx/5xx answer (diagnostics only)
	// the error handler was given a DecodeBodyError: digest of its Body, whether that Body is what this request's
	// body reader delivered, and whether it changed while the handler held it
	DecodeErrBody        string `json:"decode_err_body,omitempty"`
	DecodeErrBodyForeign bool   `json:"decode_err_body_foreign,omitempty"`
	DecodeErrBodyChanged bool   `json:"decode_err_body_changed,omitempty"`
	Middleware2Saw       string `json:"middleware2_saw,omitempty"` // operation name the second middleware of the chain was handed
	SecurityCalls        int    `json:"security_calls"`
	// the user's own NotFound / MethodNotAllowed handlers (installed in half of the typed scenarios) were called
	SecurityRefused bool   `json:"security_refused,omitempty"` // the application's security handler refused (or could not check) the credential
	LabelsForeign   string `json:"labels_foreign,omitempty"`   // what the Labeler held after this request added its own label, if that is not its own label alone
	NewErrorStatus  int    `json:"new_error_status,omitempty"` // the status the application's NewError chose for this request's failure
	CustomNotFound  int    `json:"custom_not_found,omitempty"`
	CustomNotAllow  int    `json:"custom_method_not_allowed,omitempty"`
	Allow           string `json:"allow,omitempty"`
	Marker          string `json:"marker,omitempty"` // the handler's marker header, if the response carries it
	Returned        bool   `json:"returned"`
	TempFiles       int    `json:"temp_files"` // multipart parts that ogen handed over as *os.File (spilled to disk)
}

type srvKey struct{}

type srvInfo struct {
	St   *simrt.Stream
	Side *ServerSide
	Call *callInfo
	Idx  int // which delivery of the call this is: 0 first attempt, 1 replayed attempt, 2 duplicate
	read *teeBody
}

// teeBody remembers what the server read from the request body (the first 256 kB).
type teeBody struct {
	rc  io.ReadCloser
	buf bytes.Buffer
}

func (t *teeBody) Read(p []byte) (int, error) {
	n, err := t.rc.Read(p)
	if n > 0 && t.buf.Len() < 1<<18 {
		t.buf.Write(p[:n])
	}
	return n, err
}

func (t *teeBody) Close() error { return t.rc.Close() }

func shortSum(b []byte) string {
	h := sha256.Sum256(b)
	return hex.EncodeToString(h[:8])
}

// SimErrorHandler is installed as the servers' ErrorHandler: what a careful user writes - it looks at the rejected
// body (to log it) and then answers like ogen's default handler. The body it is shown must be the body of this
// request and must stay what it is while the handler runs.
func SimErrorHandler(ctx context.Context, w http.ResponseWriter, r *http.Request, err error) {
	if si := srvFrom(r.Context()); si != nil {
		var de *ogenerrors.DecodeBodyError
		if errors.As(err, &de) && len(de.Body) > 0 {
			s1 := shortSum(de.Body)
			si.Side.DecodeErrBody = s1
			if si.read != nil {
				got := si.read.buf.Bytes()
				if si.read.buf.Len() < 1<<18 && !bytes.Equal(de.Body, got[:min(len(got), len(de.Body))]) {
					si.Side.DecodeErrBodyForeign = true
				}
			}
			si.St.MaybeYield()
			si.St.MaybeYield()
			if shortSum(de.Body) != s1 {
				si.Side.DecodeErrBodyChanged = true
			}
		}
	}
	ogenerrors.DefaultErrorHandler(ctx, w, r, err)
}

func srvFrom(ctx context.Context) *srvInfo {
	si, _ := ctx.Value(srvKey{}).(*srvInfo)
	return si
}

// SimTransport implements ht.Client over simulated links to one http.Handler.
type SimTransport struct {
	Handler  http.Handler
	MinChunk int
	MaxChunk int
	WG       *sync.WaitGroup // server and writer tasks; waited for at the end of the run
}

type evKind int

const (
	evResp evKind = iota
	evRespErr
	evWriteErr
	evCancel
)

type event struct {
	kind evKind
	resp *http.Response
	err  error
}

// Do sends the request over a simulated connection.
func (t *SimTransport) Do(req *http.Request) (*http.Response, error) {
	ctx := req.Context()
	ci := infoFrom(ctx)
	if ci == nil {
		return nil, errors.New("simtransport: request without call info")
	}
	closeBody := func() {
		if req.Body != nil {
			_ = req.Body.Close()
		}
	}
	if err := ctx.Err(); err != nil {
		closeBody()
		return nil, err
	}
	f := ci.Fault
	kind := ""
	if f != nil {
		kind = f.Kind
	}
	name := fmt.Sprintf("t%d.o%d", ci.Task, ci.Op)
	ci.Rec.ReqCT = req.Header.Get("Content-Type")

	// in-flight alterations of the request head
	switch kind {
	case "ctype":
		if f.Arg == "" {
			req.Header.Del("Content-Type")
		} else {
			req.Header.Set("Content-Type", f.Arg)
		}
		ci.Rec.fire()
	case "method":
		req.Method = f.Arg
		ci.Rec.fire()
	case "drop-header":
		if _, ok := req.Header[http.CanonicalHeaderKey(f.Arg)]; ok {
			req.Header.Del(f.Arg)
			ci.Rec.fire()
		}
	case "dup-header":
		if v, ok := req.Header[http.CanonicalHeaderKey(f.Arg)]; ok && len(v) > 0 {
			req.Header.Add(f.Arg, v[0])
			ci.Rec.fire()
		}
	case "drop-query":
		q := req.URL.Query()
		if q.Has(f.Arg) {
			q.Del(f.Arg)
			req.URL.RawQuery = q.Encode()
			ci.Rec.fire()
		}
	case "dup-query":
		pairs := strings.Split(req.URL.RawQuery, "&")
		if i := pickPair(pairs, f.Arg, "="); i >= 0 {
			pairs = append(pairs, pairs[i])
			req.URL.RawQuery = strings.Join(pairs, "&")
			ci.Rec.fire()
		}
	case "mangle":
		if mangle(req, f.Arg, f.Val) {
			ci.Rec.fire()
		}
	case "add-query":
		// an intermediary appends a raw query pair
		if req.URL.RawQuery != "" {
			req.URL.RawQuery += "&"
		}
		req.URL.RawQuery += f.Arg
		ci.Rec.fire()
	case "drop-field", "dup-field":
		if f.Val != "" {
			// the same intermediary also appends a query pair (Val, raw): body fields and query parameters are
			// different things, whatever their names
			if req.URL.RawQuery != "" {
				req.URL.RawQuery += "&"
			}
			req.URL.RawQuery += f.Val
		}
	}

	ci.Rec.ReqMethod, ci.Rec.ReqPath = req.Method, req.URL.EscapedPath()
	if o := req.URL.Opaque; o != "" {
		ci.Rec.ReqPath = strings.TrimPrefix(o, "//"+req.URL.Host)
	}

	if kind == "replay" && req.GetBody == nil && req.Body != nil && req.Body != http.NoBody {
		// a streamed body cannot be replayed: an intermediary would not retry this request
		ci.Fault, f, kind = nil, nil, ""
	}
	attempt := 0
	for {
		attempt++
		resp, err, again := t.attempt(req, ci, name, attempt)
		if !again {
			return resp, err
		}
		// replay: the connection was lost before any response byte; net/http's transport would send the
		// request again from GetBody.
		if req.GetBody == nil && req.Body != nil && req.Body != http.NoBody {
			return nil, errors.New("simtransport: connection lost, request body cannot be replayed")
		}
		if req.GetBody != nil {
			b, gerr := req.GetBody()
			if gerr != nil {
				return nil, gerr
			}
			req.Body = b
		}
	}
}

func (t *SimTransport) attempt(req *http.Request, ci *callInfo, name string, attempt int) (_ *http.Response, _ error, again bool) {
	ctx := req.Context()
	f := ci.Fault
	kind := ""
	if f != nil {
		kind = f.Kind
	}
	sfx := ""
	if attempt > 1 {
		sfx = fmt.Sprintf(".a%d", attempt)
	}
	reqLink := newLink(simrt.NewStream(name+".reqw"+sfx), t.MinChunk, t.MaxChunk)
	respLink := newLink(simrt.NewStream(name+".respw"+sfx), t.MinChunk, t.MaxChunk)
	ci.Rec.links[min(attempt-1, 1)] = [2]*link{reqLink, respLink}
	firstAttemptLost := kind == "replay" && attempt == 1
	switch {
	case firstAttemptLost:
		// lost after the whole request was sent and before any response byte
	case kind == "cut-req":
		reqLink.cutAt = f.At
	case kind == "reset-req":
		reqLink.cutAt, reqLink.reset = f.At, true
	case kind == "cut-resp":
		respLink.cutAt = f.At
	case kind == "reset-resp":
		respLink.cutAt, respLink.reset = f.At, true
	}

	events := make(chan event, 8)

	// --- writer task: serialises the request with net/http's own writer
	var wire io.Writer = reqLink
	var dupBuf *bytes.Buffer
	if kind == "dup" {
		dupBuf = &bytes.Buffer{}
		wire = io.MultiWriter(reqLink, dupBuf)
	}
	if kind == "flip" {
		wire = &flipWriter{w: reqLink, at: f.At, rec: ci.Rec}
	}
	writeDone := make(chan struct{})
	t.WG.Add(1)
	go func() {
		defer t.WG.Done()
		defer close(writeDone)
		var err error
		if kind == "append" && req.Body != nil && req.Body != http.NoBody {
			extra := f.Arg
			if strings.HasPrefix(extra, "BIGFORM:") {
				// ten MiB of padding in front of the text: what lies behind a size limit must not simply be cut off
				extra = "&pad=" + strings.Repeat("a", 10<<20) + extra[len("BIGFORM:"):]
			}
			err = reframe(req, wire, func(ct string, body []byte) ([]byte, bool) { return append(body, extra...), true })
			ci.Rec.fire()
		} else if kind == "lie-length" && req.Body != nil && req.Body != http.NoBody {
			// the request is serialised as it is; then the declared length in its head is replaced by Arg. The peer gets
			// the whole (short) body and then the end of the connection.
			var buf bytes.Buffer
			if err = req.Write(&buf); err == nil {
				raw := buf.Bytes()
				if loc := contentLengthLine.FindIndex(raw); loc != nil && loc[0] < bytes.Index(raw, []byte("\r\n\r\n"))+2 {
					raw = append(append(append([]byte{}, raw[:loc[0]]...), []byte("\r\nContent-Length: "+f.Arg+"\r\n")...), raw[loc[1]:]...)
					ci.Rec.fire()
				}
				_, err = wire.Write(raw)
			}
		} else if (kind == "drop-field" || kind == "dup-field") && req.Body != nil && req.Body != http.NoBody {
			applied := false
			err = reframe(req, wire, func(ct string, body []byte) ([]byte, bool) {
				nb, ok := editFields(ct, body, f.Arg, kind == "dup-field")
				applied = ok
				return nb, ok
			})
			if applied {
				ci.Rec.fire()
			}
		} else {
			err = req.Write(wire) // closes req.Body
		}
		if err != nil {
			if req.Body != nil {
				_ = req.Body.Close()
			}
			if reqLink.Fired {
				ci.Rec.fire()
			} else {
				reqLink.AbortWrite(err) // e.g. the body reader failed: the peer sees a broken connection
			}
			events <- event{kind: evWriteErr, err: err}
			return
		}
		_ = reqLink.CloseWrite()
	}()

	// --- server task
	side := &ServerSide{}
	ci.Rec.sides[min(attempt-1, 1)] = side
	t.WG.Add(1)
	go func() {
		defer t.WG.Done()
		t.serve(ctx, reqLink, respLink, side, min(attempt-1, 1), ci, name+".srv"+sfx, kind, f)
		if kind == "dup" && dupBuf != nil {
			// second delivery of the same bytes, to a server task of its own; its answer is discarded
			<-writeDone
			side2 := &ServerSide{}
			ci.Rec.sides[2] = side2
			in := newLink(simrt.NewStream(name+".dupw"), t.MinChunk, t.MaxChunk)
			outl := newLink(simrt.NewStream(name+".dupr"), t.MinChunk, t.MaxChunk)
			t.WG.Add(2)
			go func() {
				defer t.WG.Done()
				_, _ = in.Write(dupBuf.Bytes())
				_ = in.CloseWrite()
			}()
			go func() {
				defer t.WG.Done()
				_, _ = io.Copy(io.Discard, outl)
			}()
			t.serve(ctx, in, outl, side2, 2, ci, name+".srv.dup", "", nil)
			ci.Rec.fire()
		}
	}()

	if firstAttemptLost {
		// the response of this attempt never reaches the client
		go func() { _, _ = io.Copy(io.Discard, respLink) }()
		<-writeDone
		ci.Rec.fire()
		return nil, nil, true
	}

	// --- response reader task
	t.WG.Add(1)
	go func() {
		defer t.WG.Done()
		resp, err := http.ReadResponse(bufio.NewReader(respLink), req)
		if err != nil {
			if respLink.Fired {
				ci.Rec.fire()
			}
			events <- event{kind: evRespErr, err: err}
			return
		}
		events <- event{kind: evResp, resp: resp}
	}()

	// --- cancellation
	stopWatch := make(chan struct{})
	go func() {
		select {
		case <-ctx.Done():
			events <- event{kind: evCancel, err: ctx.Err()}
		case <-stopWatch:
		}
	}()
	defer close(stopWatch)

	// The writer and the response reader can be made runnable by the same event (a link that breaks), and
	// which of them reports first is up to the Go scheduler. The outcome therefore never depends on the
	// order of their reports: an error is only returned once both have finished, by fixed priority.
	var writeErr, respErr error
	haveResp := false
	for {
		ev := <-events
		switch ev.kind {
		case evResp:
			ev.resp.Body = &respBody{rc: ev.resp.Body, ctx: ctx, link: respLink, rec: ci.Rec}
			return ev.resp, nil, false
		case evRespErr:
			respErr, haveResp = ev.err, true
			respLink.CloseRead()
			// The request link is left alone: the server discards what is still in flight and the writer ends
			// by itself. (Aborting it here would race with the writer's next chunk.)
		case evWriteErr:
			// like net/http: a response that still arrives wins; otherwise the response reader fails soon
			writeErr = ev.err
		case evCancel:
			// The client is gone: the server's body reads fail with the context error from now on (whether
			// blocked or arriving later), its request context is cancelled as net/http does on disconnect, and
			// its writes fail.
			reqLink.AbortWrite(context.Canceled)
			respLink.Abort(context.Canceled)
			if c := ci.srvCancel.Load(); c != nil {
				(*c)()
			}
			return nil, ev.err, false
		}
		if haveResp {
			<-writeDone // the writer has reported its error, if any, before closing this channel
			for len(events) > 0 {
				if ev := <-events; ev.kind == evWriteErr {
					writeErr = ev.err
				} else if ev.kind == evCancel {
					return nil, ev.err, false
				}
			}
			if writeErr != nil {
				return nil, writeErr, false
			}
			return nil, respErr, false
		}
	}
}

var contentLengthLine = regexp.MustCompile(`(?i)\r\nContent-Length: [0-9]+\r\n`)

// pickPair finds the pair whose name is sel, or the i-th pair for sel "#i" (modulo the number of pairs).
func pickPair(pairs []string, sel, sep string) int {
	if len(pairs) == 0 || (len(pairs) == 1 && pairs[0] == "") {
		return -1
	}
	if strings.HasPrefix(sel, "#") {
		n, err := strconv.Atoi(sel[1:])
		if err != nil || n < 0 {
			return -1
		}
		return n % len(pairs)
	}
	for i, p := range pairs {
		k, _, _ := strings.Cut(strings.TrimSpace(p), sep)
		if uk, err := url.QueryUnescape(k); err == nil && uk == sel {
			return i
		}
	}
	return -1
}

// mangle rewrites one piece of the request head in flight. It reports whether the piece existed.
func mangle(req *http.Request, target, val string) bool {
	kind, sel := target, ""
	if i := strings.IndexAny(target, ":#"); i >= 0 {
		kind, sel = target[:i], target[i:]
		sel = strings.TrimPrefix(sel, ":")
	}
	switch kind {
	case "query":
		pairs := strings.Split(req.URL.RawQuery, "&")
		i := pickPair(pairs, sel, "=")
		if i < 0 {
			return false
		}
		k, _, _ := strings.Cut(pairs[i], "=")
		pairs[i] = k + "=" + val
		req.URL.RawQuery = strings.Join(pairs, "&")
		return true
	case "path":
		if sel == "glue" {
			// the slash behind the mount prefix (Val) is lost: "/api/pets" becomes "/apipets", which is outside the mount
			raw := req.URL.EscapedPath()
			if val == "" || !strings.HasPrefix(raw, val+"/") || len(raw) < len(val)+2 {
				return false
			}
			req.URL.Opaque = "//" + req.URL.Host + val + raw[len(val)+1:]
			return true
		}
		n, err := strconv.Atoi(sel)
		if err != nil {
			return false
		}
		segs := strings.Split(req.URL.EscapedPath(), "/")
		if len(segs) < 2 {
			return false
		}
		i := 1 + n%(len(segs)-1)
		segs[i] = val
		raw := strings.Join(segs, "/")
		if _, err := url.PathUnescape(raw); err != nil {
			return false // net/http's server refuses such a request target itself; ogen never sees it
		}
		// sent as written (absolute-form request target), not as net/url would re-encode it
		req.URL.Opaque = "//" + req.URL.Host + raw
		return true
	case "header":
		var names []string
		for k := range req.Header {
			switch k {
			case "Content-Type", "Content-Length", "Cookie", "Host", "Transfer-Encoding", "User-Agent", "Accept-Encoding":
			default:
				names = append(names, k)
			}
		}
		sort.Strings(names)
		name := sel
		if strings.HasPrefix(sel, "#") {
			n, err := strconv.Atoi(sel[1:])
			if err != nil || len(names) == 0 {
				return false
			}
			name = names[n%len(names)]
		} else if _, ok := req.Header[http.CanonicalHeaderKey(sel)]; !ok {
			return false
		}
		req.Header.Set(name, val)
		return true
	case "cookie":
		c := req.Header.Get("Cookie")
		if c == "" {
			return false
		}
		pairs := strings.Split(c, ";")
		i := pickPair(pairs, sel, "=")
		if i < 0 {
			return false
		}
		k, _, _ := strings.Cut(strings.TrimSpace(pairs[i]), "=")
		pairs[i] = " " + k + "=" + val
		req.Header.Set("Cookie", strings.TrimSpace(strings.Join(pairs, ";")))
		return true
	}
	return false
}

// reframe is a buffering intermediary: it receives the whole request, edits the body and forwards it with
// a consistent Content-Length.
func reframe(req *http.Request, wire io.Writer, edit func(contentType string, body []byte) ([]byte, bool)) error {
	var buf bytes.Buffer
	if err := req.Write(&buf); err != nil {
		return err
	}
	r2, err := http.ReadRequest(bufio.NewReader(&buf))
	if err != nil {
		return err
	}
	body, err := io.ReadAll(r2.Body)
	if err != nil {
		return err
	}
	if nb, ok := edit(r2.Header.Get("Content-Type"), body); ok {
		body = nb
	}
	r2.Body = io.NopCloser(bytes.NewReader(body))
	r2.ContentLength = int64(len(body))
	r2.TransferEncoding = nil
	r2.URL.Scheme, r2.URL.Host = "http", r2.Host
	r2.RequestURI = ""
	return r2.Write(wire)
}

// editFields drops or repeats one field of a form-urlencoded body or one part of a multipart body. It reports
// false when the body has no such field (then nothing was damaged).
func editFields(contentType string, body []byte, name string, dup bool) ([]byte, bool) {
	mt, params, err := mime.ParseMediaType(contentType)
	if err != nil {
		return nil, false
	}
	switch mt {
	case "application/x-www-form-urlencoded":
		var out []string
		found := false
		for _, pair := range strings.Split(string(body), "&") {
			k, _, _ := strings.Cut(pair, "=")
			if uk, err := url.QueryUnescape(k); err == nil && uk == name {
				found = true
				if dup {
					out = append(out, pair, pair)
				}
				continue
			}
			out = append(out, pair)
		}
		return []byte(strings.Join(out, "&")), found
	case "multipart/form-data":
		mr := multipart.NewReader(bytes.NewReader(body), params["boundary"])
		var nb bytes.Buffer
		mw := multipart.NewWriter(&nb)
		if err := mw.SetBoundary(params["boundary"]); err != nil {
			return nil, false
		}
		found := false
		for {
			p, err := mr.NextRawPart()
			if err != nil {
				break
			}
			data, _ := io.ReadAll(p)
			n := 1
			if p.FormName() == name {
				found = true
				n = 0
				if dup {
					n = 2
				}
			}
			for i := 0; i < n; i++ {
				w, err := mw.CreatePart(p.Header)
				if err != nil {
					return nil, false
				}
				_, _ = w.Write(data)
			}
		}
		_ = mw.Close()
		return nb.Bytes(), found
	}
	return nil, false
}

type flipWriter struct {
	w   io.Writer
	at  int
	off int
	rec *CallRecord
}

func (f *flipWriter) Write(p []byte) (int, error) {
	if f.at >= f.off && f.at < f.off+len(p) {
		q := bytes.Clone(p)
		q[f.at-f.off] ^= 0x20
		f.off += len(p)
		f.rec.fire()
		return f.w.Write(q)
	}
	f.off += len(p)
	return f.w.Write(p)
}

// respBody makes the client's reads of the response observe cancellation and link faults.
type respBody struct {
	rc   io.ReadCloser
	ctx  context.Context
	link *link
	rec  *CallRecord
}

func (b *respBody) Read(p []byte) (int, error) {
	if err := b.ctx.Err(); err != nil {
		return 0, err
	}
	n, err := b.rc.Read(p)
	if err != nil && err != io.EOF && b.link.Fired {
		b.rec.fire()
	}
	return n, err
}

func (b *respBody) Close() error {
	b.link.CloseRead()
	return b.rc.Close()
}

// serve parses one request from the link with net/http's own parser and runs the handler.
func (t *SimTransport) serve(clientCtx context.Context, in, out *link, side *ServerSide, idx int, ci *callInfo, name, kind string, f *Fault) {
	st := simrt.NewStream(name)
	defer simrt.Bind(st)()
	st.Yield()
	br := bufio.NewReader(in)
	r, err := http.ReadRequest(br)
	if err != nil {
		// the damage hit the request head: net/http answers 400 itself or just closes; ogen never sees it
		side.ParseErr = err.Error()
		if in.Fired {
			ci.Rec.fire()
		}
		_, _ = io.Copy(io.Discard, br)
		out.AbortWrite(errCut)
		return
	}
	// The server's context is its own: it is cancelled when the connection goes away.
	sctx, cancel := context.WithCancel(context.Background())
	defer cancel()
	ci.srvCancel.Store(&cancel)
	tee := &teeBody{rc: r.Body}
	r.Body = tee
	sctx = context.WithValue(sctx, srvKey{}, &srvInfo{St: st, Side: side, Call: ci, Idx: idx, read: tee})
	r = r.WithContext(sctx)
	r.RemoteAddr = "sim:1"
	w := &recWriter{side: side, out: out, h: http.Header{}, method: r.Method, st: st}
	if kind == "writer-fail" && f != nil {
		w.failAfter = f.At
		w.rec = ci.Rec
	}
	side.Delivered = true
	func() {
		defer func() {
			if p := recover(); p != nil {
				side.Panic = fmt.Sprint(p)
			}
		}()
		t.Handler.ServeHTTP(w, r)
	}()
	side.Returned = true
	w.finish()
	if in.Fired {
		ci.Rec.fire()
	}
	// like net/http: what the handler left unread is discarded, then the connection is done
	_, _ = io.Copy(io.Discard, r.Body)
	_, _ = io.Copy(io.Discard, br)
	in.CloseRead()
}

// recWriter is the recording http.ResponseWriter. It serialises the response onto the response link the
// way net/http's server does (status line, headers, chunked body unless Content-Length is set).
type recWriter struct {
	side      *ServerSide
	out       *link
	h         http.Header
	method    string
	st        *simrt.Stream
	committed bool
	chunked   bool
	noBody    bool
	finished  bool
	broken    bool
	failAfter int
	rec       *CallRecord
}

func (w *recWriter) Header() http.Header { return w.h }

func (w *recWriter) WriteHeader(code int) {
	if w.finished {
		w.side.WritesAfter++
		return
	}
	w.side.WriteHeaders++
	w.side.Explicit = true
	if w.committed {
		return // net/http logs "superfluous response.WriteHeader call"; counted above
	}
	w.commit(code)
}

func (w *recWriter) commit(code int) {
	w.committed = true
	w.side.Commits++
	w.side.Status = code
	w.side.Allow = w.h.Get("Allow")
	w.side.Marker = w.h.Get("X-Sim-Handler")
	w.noBody = w.method == http.MethodHead || code == 204 || code == 304 || (code >= 100 && code < 200)
	var sb strings.Builder
	fmt.Fprintf(&sb, "HTTP/1.1 %03d %s\r\n", code, http.StatusText(code))
	hdr := w.h.Clone()
	if !w.noBody && hdr.Get("Content-Length") == "" {
		w.chunked = true
		hdr.Set("Transfer-Encoding", "chunked")
	}
	var bb bytes.Buffer
	_ = hdr.Write(&bb)
	sb.Write(bb.Bytes())
	sb.WriteString("\r\n")
	if _, err := w.out.Write([]byte(sb.String())); err != nil {
		w.broken = true
	}
}

func (w *recWriter) Write(p []byte) (int, error) {
	if w.finished {
		w.side.WritesAfter++
		return 0, http.ErrHandlerTimeout
	}
	w.side.Explicit = true
	if !w.committed {
		w.commit(200)
	}
	if w.rec != nil && w.side.BodyBytes+len(p) > w.failAfter {
		w.rec.fire()
		w.side.WriteErrs++
		w.broken = true
		w.out.AbortWrite(errCut)
		return 0, errCut
	}
	if w.broken {
		w.side.WriteErrs++
		return 0, errCut
	}
	if w.noBody {
		return 0, http.ErrBodyNotAllowed
	}
	if w.side.Status >= 400 && len(w.side.ErrBody) < 300 {
		w.side.ErrBody += string(p[:min(len(p), 300-len(w.side.ErrBody))])
	}
	// deliver in pieces with yields in between, from a private copy taken piece by piece: a buffer that
	// is reused under us becomes visible as corruption
	total := 0
	for len(p) > 0 {
		c := len(p)
		if c > 97 {
			c = 97
		}
		var err error
		if w.chunked {
			_, err = w.out.Write([]byte(strconv.FormatInt(int64(c), 16) + "\r\n" + string(p[:c]) + "\r\n"))
		} else {
			_, err = w.out.Write(bytes.Clone(p[:c]))
		}
		if err != nil {
			w.broken = true
			w.side.WriteErrs++
			return total, err
		}
		total += c
		w.side.BodyBytes += c
		p = p[c:]
	}
	return total, nil
}

// Flush implements http.Flusher.
func (w *recWriter) Flush() {
	if !w.committed && !w.finished {
		w.side.Explicit = true
		w.commit(200)
	}
}

func (w *recWriter) finish() {
	if w.finished {
		return
	}
	if !w.committed {
		// the handler wrote nothing at all: net/http sends an implicit 200 with an empty body
		w.h.Set("Content-Length", "0")
		explicit := w.side.Explicit
		w.commit(200)
		w.side.Explicit = explicit
	}
	w.finished = true
	if w.chunked && !w.broken {
		_, _ = w.out.Write([]byte("0\r\n\r\n"))
	}
	_ = w.out.CloseWrite()
}
