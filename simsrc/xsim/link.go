package xsim

import (
	"errors"
	"io"

	"github.com/ogen-go/ogen/simrt"
)

// A link is one direction of a simulated connection: an in-memory pipe whose writer side cuts what it is
// given into seeded chunks, yields before delivering each chunk, and applies at most one fault at a wire
// offset. Everything is created inside the bubble; blocking happens on channels only (durable blocks).

var (
	errCut   = errors.New("simlink: connection closed by peer")
	errReset = errors.New("simlink: connection reset")
)

type link struct {
	pr *io.PipeReader
	pw *io.PipeWriter
	st *simrt.Stream

	minChunk, maxChunk int

	// fault
	cutAt   int // >= 0: after this many bytes the reader sees EOF (cut) or an error (reset)
	reset   bool
	written int
	Fired   bool
	closed  bool
	Chunks  int
	Bytes   int
}

func newLink(st *simrt.Stream, minChunk, maxChunk int) *link {
	pr, pw := io.Pipe()
	if minChunk < 1 {
		minChunk = 1
	}
	if maxChunk < minChunk {
		maxChunk = minChunk
	}
	return &link{pr: pr, pw: pw, st: st, minChunk: minChunk, maxChunk: maxChunk, cutAt: -1}
}

// Write delivers p in chunks. It is called by exactly one goroutine. The fault fires only when there are
// bytes that do not get delivered: a cut that falls exactly behind the last byte is no fault.
func (l *link) Write(p []byte) (int, error) {
	n := 0
	for len(p) > 0 {
		if l.closed {
			return n, io.ErrClosedPipe
		}
		if l.cutAt >= 0 && l.written >= l.cutAt {
			return n, l.fire()
		}
		c := l.minChunk
		if l.maxChunk > l.minChunk {
			c += l.st.Rand(l.maxChunk - l.minChunk + 1)
		}
		if c > len(p) {
			c = len(p)
		}
		if l.cutAt >= 0 && l.written+c > l.cutAt {
			c = l.cutAt - l.written
		}
		l.st.MaybeYield()
		m, err := l.pw.Write(p[:c])
		n += m
		l.written += m
		l.Bytes += m
		l.Chunks++
		if err != nil {
			return n, err
		}
		p = p[c:]
	}
	return n, nil
}

func (l *link) fire() error {
	l.Fired = true
	l.closed = true
	if l.reset {
		_ = l.pw.CloseWithError(errReset)
		return errReset
	}
	// the peer sees a clean EOF at this offset; the writer learns that the connection is gone
	_ = l.pw.Close()
	return errCut
}

func (l *link) Read(p []byte) (int, error) { return l.pr.Read(p) }

// CloseWrite ends the stream normally.
func (l *link) CloseWrite() error {
	if l.closed {
		return nil
	}
	l.closed = true
	return l.pw.Close()
}

// AbortWrite is called by the writing side: the reader sees err from now on, whether it is already blocked
// in Read or arrives later.
func (l *link) AbortWrite(err error) { _ = l.pw.CloseWithError(err) }

// Abort ends the stream with an error for both sides (used from outside, on cancellation only).
func (l *link) Abort(err error) {
	_ = l.pw.CloseWithError(err)
	_ = l.pr.CloseWithError(err)
}

// CloseRead tells the writer that nobody listens any more.
func (l *link) CloseRead() { _ = l.pr.CloseWithError(io.ErrClosedPipe) }
