module simsrc

go 1.23.0

// Sources under this directory are copied into scratch modules at check time; they are not built here.
