// Package gensim is the C10/C14 simulation harness: it runs the real front end and generator
// (ogen.Parse, gen.NewGenerator, WriteSource) from the instrumented scratch copy inside one process,
// under a seeded map-order policy per range site, a seeded schedule of the template goroutines
// (fake-clock time slicing in a testing/synctest bubble), a seeded pool policy, an in-process history of
// earlier generations, and file-system faults. It reports the bytes of every generated file as hashes.
//
// One process executes the scenarios of one job file (VERIF_SIM_JOB) and appends one JSON line per
// scenario to the job's output file. All choices come from the scenario; nothing here draws randomness.
package gensim

import (
	"bytes"
	"crypto/sha256"
	"encoding/hex"
	"encoding/json"
	"fmt"
	"os"
	"path/filepath"
	"runtime"
	"sort"
	"strings"
	"sync"
	"syscall"
	"testing"
	"testing/synctest"
	"time"

	"github.com/go-faster/errors"
	"github.com/go-faster/yaml"
	"go.uber.org/zap"

	"github.com/ogen-go/ogen"
	"github.com/ogen-go/ogen/gen"
	"github.com/ogen-go/ogen/simrt"
)

// GenInput names one generation: a spec file and a config (YAML text, as cmd/ogen reads it).
type GenInput struct {
	Spec    string `json:"spec"`
	Config  string `json:"config,omitempty"`
	Package string `json:"package,omitempty"`
	Dir     string `json:"dir,omitempty"` // working directory for this generation (the spec path may be relative to it)
	// Overlay: files (by base name) that have this content instead of what is on disk: the same location read at
	// another time (a document that was edited between two generations of one process)
	Overlay map[string]string `json:"overlay,omitempty"`
}

// Scenario is one complete, explicit simulated run.
type Scenario struct {
	ID      string     `json:"id"`
	Input   GenInput   `json:"input"`
	History []HistItem `json:"history,omitempty"` // earlier generations in the same process

	Seed          uint64            `json:"seed"`
	DefaultPolicy int               `json:"default_policy"`
	SitePolicy    map[string]int    `json:"site_policy,omitempty"`
	Sched         bool              `json:"sched"`
	Procs         int               `json:"gomaxprocs"`
	YieldP        float64           `json:"yield_p"`
	MaxDelay      int               `json:"max_delay"`
	PoolPolicy    int               `json:"pool_policy"`
	Poison        bool              `json:"poison"`
	FSFailFile    string            `json:"fs_fail_file,omitempty"` // WriteFile of this name fails
	FSStallFile   string            `json:"fs_stall_file,omitempty"`
	Stats         bool              `json:"stats,omitempty"`
	KeepFiles     string            `json:"keep_files,omitempty"` // directory to store the measured files in
	Extra         map[string]string `json:"extra,omitempty"`
}

// HistItem is an earlier generation in the same process.
type HistItem struct {
	Input      GenInput `json:"input"`
	FSFailFile string   `json:"fs_fail_file,omitempty"`
}

// Result of one scenario.
type Result struct {
	Aborted     bool                      `json:"aborted,omitempty"` // the scenario's goroutine was ended by the testing package (race detected in the bubble)
	ID          string                    `json:"id"`
	Files       map[string]string         `json:"files"` // name -> sha256 of bytes
	Sizes       map[string]int            `json:"sizes"`
	Err         string                    `json:"err,omitempty"`
	ErrInjected bool                      `json:"err_injected,omitempty"` // the error wraps the injected FS fault
	ToolTrouble string                    `json:"tool_trouble,omitempty"`
	Panic       string                    `json:"panic,omitempty"`
	DupWrites   []string                  `json:"dup_writes,omitempty"`
	HistErrs    []string                  `json:"hist_errs,omitempty"`
	Yields      int                       `json:"yields"`
	Switches    int                       `json:"switches"`   // context switches between template tasks
	SchedHash   string                    `json:"sched_hash"` // hash of the merged (fake time, stream) log
	Streams     int                       `json:"streams"`
	FakeNS      int64                     `json:"fake_ns"`
	WallMS      int64                     `json:"wall_ms"`
	SiteStats   map[string]simrt.SiteStat `json:"site_stats,omitempty"`
	PoolReused  int                       `json:"pool_reused"`
	PoolPoison  int                       `json:"pool_poisoned"`
	Tasks       int                       `json:"tasks"`
	LimitHit    bool                      `json:"limit_hit"` // errgroup limit below the number of templates
}

type job struct {
	Scenarios []Scenario `json:"scenarios"`
	Out       string     `json:"out"`
}

var errInjected = errors.New("simfs: injected write failure (ENOSPC)")

type recFS struct {
	mu    sync.Mutex
	files map[string][]byte
	dup   []string
	fail  string
	stall string
}

func (f *recFS) WriteFile(name string, content []byte) error {
	if name == f.stall {
		st := simrt.NewStream("fs-stall:" + name)
		for i := 0; i < 50; i++ {
			st.Yield()
		}
	}
	if name == f.fail {
		return &os.PathError{Op: "write", Path: name, Err: errInjected}
	}
	f.mu.Lock()
	defer f.mu.Unlock()
	if _, ok := f.files[name]; ok {
		f.dup = append(f.dup, name)
	}
	f.files[name] = bytes.Clone(content)
	return nil
}

// generate performs one generation the way cmd/ogen does (config YAML -> options, SetLocation, Parse,
// NewGenerator, WriteSource) against a recording file system.
func generate(in GenInput, fs *recFS) error {
	if in.Dir != "" {
		if err := os.Chdir(in.Dir); err != nil {
			return errors.Wrap(err, "chdir")
		}
	}
	var opts gen.Options
	opts.Logger = zap.NewNop()
	if in.Config != "" {
		d := yaml.NewDecoder(strings.NewReader(in.Config))
		d.KnownFields(true)
		if err := d.Decode(&opts); err != nil {
			return errors.Wrap(err, "load config")
		}
	}
	var remote gen.RemoteOptions
	if len(in.Overlay) > 0 {
		overlay := in.Overlay
		remote.ReadFile = func(p string) ([]byte, error) {
			if c, ok := overlay[filepath.Base(p)]; ok {
				return []byte(c), nil
			}
			return os.ReadFile(p)
		}
	}
	data, err := opts.SetLocation(in.Spec, remote)
	if err != nil {
		return errors.Wrap(err, "resolve spec")
	}
	spec, err := ogen.Parse(data)
	if err != nil {
		return errors.Wrap(err, "parse spec")
	}
	g, err := gen.NewGenerator(spec, opts)
	if err != nil {
		return errors.Wrap(err, "build IR")
	}
	pkg := in.Package
	if pkg == "" {
		pkg = "api"
	}
	if err := g.WriteSource(fs, pkg); err != nil {
		return errors.Wrap(err, "write")
	}
	return nil
}

func isToolTrouble(err error) bool {
	if err == nil {
		return false
	}
	s := err.Error()
	for _, m := range []string{"fork/exec", "resource temporarily unavailable", "cannot allocate memory", "too many open files", "executable file not found"} {
		if strings.Contains(s, m) {
			return true
		}
	}
	return false
}

func install(sc *Scenario, sched bool) {
	c := &simrt.Config{
		Seed:          sc.Seed,
		DefaultPolicy: simrt.Policy(sc.DefaultPolicy),
		SitePolicy:    map[string]simrt.Policy{},
		Stats:         sc.Stats,
		Sched:         sched,
		YieldP:        sc.YieldP,
		MaxDelay:      sc.MaxDelay,
		Trace:         true,
		PoolPolicy:    sc.PoolPolicy,
		Poison:        sc.Poison,
	}
	for k, v := range sc.SitePolicy {
		c.SitePolicy[k] = simrt.Policy(v)
	}
	simrt.Install(c)
}

// inBubble runs f inside a synctest bubble when sched is set, directly otherwise.
func inBubble(t *testing.T, sched bool, f func()) (panicked string) {
	defer func() {
		if r := recover(); r != nil {
			panicked = fmt.Sprint(r)
		}
	}()
	if !sched {
		f()
		return ""
	}
	synctest.Test(t, func(t *testing.T) { f() })
	return ""
}

func runScenario(t *testing.T, sc Scenario) Result {
	res := Result{ID: sc.ID, Files: map[string]string{}, Sizes: map[string]int{}}
	t0 := time.Now()
	procs := sc.Procs
	if procs <= 0 {
		procs = 4
	}
	prev := runtime.GOMAXPROCS(procs)
	defer runtime.GOMAXPROCS(prev)

	// history first: same process, same policies, own bubbles
	for i, h := range sc.History {
		install(&sc, sc.Sched)
		fs := &recFS{files: map[string][]byte{}, fail: h.FSFailFile}
		var err error
		if p := inBubble(t, sc.Sched, func() { err = generate(h.Input, fs) }); p != "" {
			res.HistErrs = append(res.HistErrs, fmt.Sprintf("%d: panic: %s", i, p))
			continue
		}
		if isToolTrouble(err) {
			res.ToolTrouble = err.Error()
			return res
		}
		if err != nil {
			res.HistErrs = append(res.HistErrs, fmt.Sprintf("%d: %s", i, firstLine(err.Error())))
		} else {
			res.HistErrs = append(res.HistErrs, fmt.Sprintf("%d: ok %d files", i, len(fs.files)))
		}
	}

	install(&sc, sc.Sched)
	fs := &recFS{files: map[string][]byte{}, fail: sc.FSFailFile, stall: sc.FSStallFile}
	var err error
	var fakeStart, fakeEnd time.Time
	res.Panic = inBubble(t, sc.Sched, func() {
		fakeStart = time.Now()
		err = generate(sc.Input, fs)
		fakeEnd = time.Now()
	})
	if sc.Sched {
		res.FakeNS = fakeEnd.Sub(fakeStart).Nanoseconds()
	}
	if err != nil {
		if isToolTrouble(err) {
			res.ToolTrouble = err.Error()
			return res
		}
		res.Err = firstLine(err.Error())
		res.ErrInjected = errors.Is(err, errInjected)
	}
	for name, b := range fs.files {
		h := sha256.Sum256(b)
		res.Files[name] = hex.EncodeToString(h[:12])
		res.Sizes[name] = len(b)
	}
	res.DupWrites = fs.dup
	if sc.KeepFiles != "" {
		_ = os.MkdirAll(sc.KeepFiles, 0o755)
		for name, b := range fs.files {
			_ = os.WriteFile(filepath.Join(sc.KeepFiles, name), b, 0o644)
		}
	}

	// schedule log: merge per-stream wake instants
	type ev struct {
		at int64
		s  int
	}
	var evs []ev
	streams := simrt.Streams()
	res.Streams = len(streams)
	for i, st := range streams {
		res.Yields += st.Yields
		if strings.HasPrefix(st.Name, "task:") {
			res.Tasks++
		}
		for _, w := range st.Wakes {
			evs = append(evs, ev{w, i})
		}
	}
	sort.Slice(evs, func(i, j int) bool { return evs[i].at < evs[j].at })
	h := sha256.New()
	last := -1
	for _, e := range evs {
		fmt.Fprintf(h, "%d:%s;", e.at, streams[e.s].Name)
		if strings.HasPrefix(streams[e.s].Name, "writer:") {
			if last >= 0 && last != e.s {
				res.Switches++
			}
			last = e.s
		}
	}
	res.SchedHash = hex.EncodeToString(h.Sum(nil)[:8])
	res.LimitHit = res.Tasks > procs
	if sc.Stats {
		res.SiteStats = simrt.Stats()
	}
	_, res.PoolReused, _, res.PoolPoison = simrt.PoolCounters()
	simrt.Install(nil)
	res.WallMS = time.Since(t0).Milliseconds()
	return res
}

func firstLine(s string) string {
	s = strings.TrimSpace(s)
	if i := strings.IndexByte(s, '\n'); i >= 0 {
		s = s[:i]
	}
	if len(s) > 600 {
		s = s[:600]
	}
	return s
}

func TestSim(t *testing.T) {
	jp := os.Getenv("VERIF_SIM_JOB")
	if jp == "" {
		t.Skip("no VERIF_SIM_JOB")
	}
	b, err := os.ReadFile(jp)
	if err != nil {
		t.Fatal(err)
	}
	var j job
	if err := json.Unmarshal(b, &j); err != nil {
		t.Fatal(err)
	}
	out, err := os.OpenFile(j.Out, os.O_CREATE|os.O_WRONLY|os.O_APPEND, 0o644)
	if err != nil {
		t.Fatal(err)
	}
	defer out.Close()
	for i, sc := range j.Scenarios {
		fmt.Fprintf(os.Stderr, "\nSCENARIO-BEGIN %d %s\n", i, sc.ID)
		// Each scenario is a subtest: when the race detector fails the bubble's test, testing ends the calling
		// goroutine (FailNow); as a subtest that ends only this scenario, and its result line is still written.
		t.Run(fmt.Sprint(i), func(t *testing.T) {
			res := Result{ID: sc.ID, Aborted: true, Files: map[string]string{}, Sizes: map[string]int{}}
			defer func() {
				fmt.Fprintf(os.Stderr, "\nSCENARIO-END %d %s\n", i, sc.ID)
				line, _ := json.Marshal(res)
				_, _ = out.Write(append(line, '\n'))
			}()
			// real-time watchdog, outside any bubble: a stalled bubble is tool trouble (exit 3), never a violation
			wd := time.AfterFunc(10*time.Minute, func() {
				buf := make([]byte, 1<<20)
				n := runtime.Stack(buf, true)
				fmt.Fprintf(os.Stderr, "\nWATCHDOG scenario %d %s stalled\n%s\n", i, sc.ID, buf[:n])
				syscall.Exit(3)
			})
			defer wd.Stop()
			res = runScenario(t, sc)
		})
	}
}
