// Package simjx replaces the call sites of jx's encoder/decoder pools (rule R3): a deterministic free
// list that poisons an encoder's buffer on Put, so that bytes used after Put show up as corruption.
package simjx

import (
	"github.com/go-faster/jx"

	"github.com/ogen-go/ogen/simrt"
)

var encPool = simrt.Pool{New: func() any { return &jx.Encoder{} }}
var decPool = simrt.Pool{New: func() any { return &jx.Decoder{} }}
var wrPool = simrt.Pool{New: func() any { return &jx.Writer{} }}

// GetEncoder stands in for jx.GetEncoder.
func GetEncoder() *jx.Encoder {
	e := encPool.Get().(*jx.Encoder)
	return e
}

// PutEncoder stands in for jx.PutEncoder: poisons the dead bytes, resets, keeps the encoder.
func PutEncoder(e *jx.Encoder) {
	if simrt.PoisonEnabled() {
		b := e.Bytes()
		b = b[:cap(b)]
		for i := range b {
			b[i] = 0xDB
		}
	}
	e.Reset()
	encPool.Put(e)
}

// GetDecoder stands in for jx.GetDecoder.
func GetDecoder() *jx.Decoder { return decPool.Get().(*jx.Decoder) }

// PutDecoder stands in for jx.PutDecoder.
func PutDecoder(d *jx.Decoder) {
	d.Reset(nil)
	decPool.Put(d)
}

// GetWriter stands in for jx.GetWriter.
func GetWriter() *jx.Writer { return wrPool.Get().(*jx.Writer) }

// PutWriter stands in for jx.PutWriter.
func PutWriter(w *jx.Writer) {
	if simrt.PoisonEnabled() {
		b := w.Buf[:cap(w.Buf)]
		for i := range b {
			b[i] = 0xDB
		}
	}
	w.Reset()
	wrPool.Put(w)
}
