// Package simrt is the run-time half of simrewrite (DESIGN.md 3.2/3.3). The instrumented scratch copy
// of ogen (and regenerated packages) call into it; the simulation harness configures it before each
// run. With no configuration installed every function behaves like the code it replaced.
//
// The package keeps no synchronised state on the paths that instrumented code runs concurrently
// (map-order decisions are pure functions of (seed, site, key set); yield streams belong to one
// goroutine each), so it adds no happens-before edges that could hide a race from the race detector.
// The exceptions are documented where they occur (Pool, stream registration, optional statistics).
package simrt

import (
	"fmt"
	"reflect"
	"runtime"
	"sort"
	"sync"
	"sync/atomic"
	"time"
)

// Policy decides the iteration order at one map-range site.
type Policy uint8

const (
	Native    Policy = iota // whatever the Go runtime does (uncontrolled)
	Canonical               // ascending canonical key order
	Reversed                // descending
	Rotated                 // canonical order rotated by a seeded amount (what Go does for small maps)
	Permuted                // seeded permutation, a pure function of (seed, site, key set)
	PerCall                 // seeded permutation that also changes from call to call at the same site
)

func (p Policy) String() string {
	return [...]string{"native", "canonical", "reversed", "rotated", "permuted", "percall"}[p]
}

// Config is installed by the harness for the duration of one run.
type Config struct {
	Seed          uint64
	DefaultPolicy Policy
	SitePolicy    map[string]Policy // overrides per site
	Stats         bool              // count site executions (takes a lock: not for race-detection runs)

	Sched    bool    // yields are active (the caller is inside a synctest bubble)
	YieldP   float64 // probability that a chunk yield actually yields
	MaxDelay int     // a yield sleeps 1..MaxDelay quanta

	Trace bool // record wake instants per stream

	PoolPolicy int // 0 LIFO, 1 FIFO, 2 seeded choice incl. drop/fresh
	Poison     bool
}

var cfg atomic.Pointer[Config] // written only between runs

// Install sets the configuration for the next run (nil = inactive) and resets per-run state.
func Install(c *Config) {
	cfg.Store(c)
	regMu.Lock()
	usedSlots = map[int64]bool{}
	streams = nil
	regMu.Unlock()
	statMu.Lock()
	stats = map[string]*SiteStat{}
	statMu.Unlock()
	callCtr = new(sync.Map)
	spawnCtr = new(sync.Map)
	if c != nil {
		SyncPoints.Store(0)
		SyncYields.Store(0)
		SyncHeld.Store(0)
		SyncNoTask.Store(0)
	}
}

// PoisonEnabled reports whether dead pool items are overwritten in this run.
func PoisonEnabled() bool {
	c := get()
	return c != nil && c.Poison
}

func get() *Config { return cfg.Load() }

// ---------------------------------------------------------------- statistics (optional)

// SiteStat counts what happened at one site.
type SiteStat struct {
	Calls        int `json:"calls"`
	Multi        int `json:"multi"`        // executions over >= 2 entries (order could matter)
	Uncontrolled int `json:"uncontrolled"` // executions whose keys have no run-independent order
	Reordered    int `json:"reordered"`    // executions whose order differed from canonical
}

var (
	statMu sync.Mutex
	stats  = map[string]*SiteStat{}
)

func stat(site string, n int, uncontrolled, reordered bool) {
	statMu.Lock()
	s := stats[site]
	if s == nil {
		s = &SiteStat{}
		stats[site] = s
	}
	s.Calls++
	if n >= 2 {
		s.Multi++
		if uncontrolled {
			s.Uncontrolled++
		}
		if reordered {
			s.Reordered++
		}
	}
	statMu.Unlock()
}

// Stats returns a copy of the per-site counters.
func Stats() map[string]SiteStat {
	statMu.Lock()
	defer statMu.Unlock()
	out := make(map[string]SiteStat, len(stats))
	for k, v := range stats {
		out[k] = *v
	}
	return out
}

// ---------------------------------------------------------------- hashing

func mix(h uint64, v uint64) uint64 {
	h ^= v + 0x9e3779b97f4a7c15 + (h << 6) + (h >> 2)
	h *= 0xff51afd7ed558ccd
	h ^= h >> 33
	return h
}

func hashString(h uint64, s string) uint64 {
	for i := 0; i < len(s); i++ {
		h = (h ^ uint64(s[i])) * 0x100000001b3
	}
	return mix(h, uint64(len(s)))
}

type rng struct{ s uint64 }

func (r *rng) next() uint64 {
	r.s += 0x9e3779b97f4a7c15
	z := r.s
	z = (z ^ (z >> 30)) * 0xbf58476d1ce4e5b9
	z = (z ^ (z >> 27)) * 0x94d049bb133111eb
	return z ^ (z >> 31)
}

func (r *rng) intn(n int) int {
	if n <= 1 {
		return 0
	}
	return int(r.next() % uint64(n))
}

func (r *rng) float() float64 { return float64(r.next()>>11) / (1 << 53) }

// ---------------------------------------------------------------- R1/R2: map order

var callCtr = new(sync.Map) // site -> *atomic.Uint64, only used by the PerCall policy

// Keys returns the keys of m in the order the run's policy for this site prescribes.
func Keys[M ~map[K]V, K comparable, V any](site string, m M) []K {
	keys := make([]K, 0, len(m))
	for k := range m {
		keys = append(keys, k)
	}
	return Order(site, keys)
}

// Order reorders a slice that was produced by iterating a map (R2: maps.Keys / maps.Values).
func Order[T any](site string, xs []T) []T {
	c := get()
	if c == nil {
		return xs
	}
	pol := c.DefaultPolicy
	if p, ok := c.SitePolicy[site]; ok {
		pol = p
	}
	if pol == Native || len(xs) < 2 {
		if c.Stats {
			stat(site, len(xs), pol == Native, false)
		}
		return xs
	}
	controlled := canonicalSort(xs)
	if !controlled {
		// no run-independent order for these keys: leave native, count
		if c.Stats {
			stat(site, len(xs), true, false)
		}
		return xs
	}
	reordered := true
	switch pol {
	case Canonical:
		reordered = false
	case Reversed:
		for i, j := 0, len(xs)-1; i < j; i, j = i+1, j-1 {
			xs[i], xs[j] = xs[j], xs[i]
		}
	case Rotated:
		r := rng{mix(hashString(c.Seed, site), uint64(len(xs)))}
		k := 1 + r.intn(len(xs)-1)
		rot := make([]T, 0, len(xs))
		rot = append(rot, xs[k:]...)
		rot = append(rot, xs[:k]...)
		copy(xs, rot)
	case Permuted, PerCall:
		h := mix(hashString(c.Seed, site), uint64(len(xs)))
		h = hashString(h, fmt.Sprint(any(xs[0])))
		if pol == PerCall {
			v, _ := callCtr.LoadOrStore(site, new(atomic.Uint64))
			h = mix(h, v.(*atomic.Uint64).Add(1))
		}
		r := rng{h}
		for i := len(xs) - 1; i > 0; i-- {
			j := r.intn(i + 1)
			xs[i], xs[j] = xs[j], xs[i]
		}
	}
	if c.Stats {
		stat(site, len(xs), false, reordered)
	}
	return xs
}

// canonicalSort sorts xs into a run-independent order and reports whether one exists.
func canonicalSort[T any](xs []T) bool {
	switch v := any(xs).(type) {
	case []string:
		sort.Strings(v)
		return true
	case []int:
		sort.Ints(v)
		return true
	}
	vals := make([]reflect.Value, len(xs))
	for i := range xs {
		vals[i] = reflect.ValueOf(&xs[i]).Elem()
	}
	ok := true
	idx := make([]int, len(xs))
	for i := range idx {
		idx[i] = i
	}
	sort.SliceStable(idx, func(a, b int) bool {
		c, comparable := cmpValues(vals[idx[a]], vals[idx[b]], 0)
		if !comparable {
			ok = false
		}
		return c < 0
	})
	if !ok {
		return false
	}
	// ties between distinct keys mean the label is not a total order
	for i := 1; i < len(idx); i++ {
		if c, _ := cmpValues(vals[idx[i-1]], vals[idx[i]], 0); c == 0 {
			return false
		}
	}
	out := make([]T, len(xs))
	for i, j := range idx {
		out[i] = xs[j]
	}
	copy(xs, out)
	return true
}

func cmpValues(a, b reflect.Value, depth int) (int, bool) {
	if depth > 6 {
		return 0, false
	}
	if a.Kind() != b.Kind() {
		return cmpStr(a.Kind().String(), b.Kind().String()), true
	}
	switch a.Kind() {
	case reflect.String:
		return cmpStr(a.String(), b.String()), true
	case reflect.Int, reflect.Int8, reflect.Int16, reflect.Int32, reflect.Int64:
		return cmpOrd(a.Int(), b.Int()), true
	case reflect.Uint, reflect.Uint8, reflect.Uint16, reflect.Uint32, reflect.Uint64, reflect.Uintptr:
		return cmpOrd(a.Uint(), b.Uint()), true
	case reflect.Float32, reflect.Float64:
		return cmpOrd(a.Float(), b.Float()), true
	case reflect.Bool:
		x, y := 0, 0
		if a.Bool() {
			x = 1
		}
		if b.Bool() {
			y = 1
		}
		return cmpOrd(x, y), true
	case reflect.Struct:
		for i := 0; i < a.NumField(); i++ {
			c, ok := cmpValues(a.Field(i), b.Field(i), depth+1)
			if !ok {
				return 0, false
			}
			if c != 0 {
				return c, true
			}
		}
		return 0, true
	case reflect.Array:
		for i := 0; i < a.Len(); i++ {
			c, ok := cmpValues(a.Index(i), b.Index(i), depth+1)
			if !ok {
				return 0, false
			}
			if c != 0 {
				return c, true
			}
		}
		return 0, true
	case reflect.Interface:
		if a.IsNil() || b.IsNil() {
			return cmpOrd(boolInt(!a.IsNil()), boolInt(!b.IsNil())), true
		}
		if c := cmpStr(a.Elem().Type().String(), b.Elem().Type().String()); c != 0 {
			return c, true
		}
		return cmpValues(a.Elem(), b.Elem(), depth+1)
	case reflect.Pointer:
		// pointers have no run-independent order: use the pointee's Name field as a label
		if a.IsNil() || b.IsNil() {
			return cmpOrd(boolInt(!a.IsNil()), boolInt(!b.IsNil())), true
		}
		if a.Pointer() == b.Pointer() {
			return 0, true
		}
		la, oka := label(a.Elem())
		lb, okb := label(b.Elem())
		if !oka || !okb {
			return 0, false
		}
		return cmpStr(la, lb), true
	}
	return 0, false
}

func label(v reflect.Value) (string, bool) {
	if v.Kind() != reflect.Struct {
		return "", false
	}
	f := v.FieldByName("Name")
	if !f.IsValid() || f.Kind() != reflect.String || f.String() == "" {
		return "", false
	}
	return f.String(), true
}

func boolInt(b bool) int {
	if b {
		return 1
	}
	return 0
}

func cmpStr(a, b string) int {
	switch {
	case a < b:
		return -1
	case a > b:
		return 1
	}
	return 0
}

func cmpOrd[T int | int64 | uint64 | float64](a, b T) int {
	switch {
	case a < b:
		return -1
	case a > b:
		return 1
	}
	return 0
}

// ---------------------------------------------------------------- scheduler streams (R5)

// Quantum is the spacing of wake instants; a stream's slot (< Quantum) makes its instants unique.
const Quantum = time.Duration(1 << 20)

var (
	regMu     sync.Mutex // taken only when a stream (or a pool) is created
	usedSlots = map[int64]bool{}
	streams   []*Stream
	pools     []*Pool
)

// Streams returns the streams created since Install (call it after the run).
func Streams() []*Stream {
	regMu.Lock()
	defer regMu.Unlock()
	return append([]*Stream(nil), streams...)
}

// PoolCounters sums the counters of every pool that was used in this process.
func PoolCounters() (gets, reused, dropped, poisoned int) {
	regMu.Lock()
	ps := append([]*Pool(nil), pools...)
	regMu.Unlock()
	for _, p := range ps {
		p.mu.Lock()
		gets += p.Gets
		reused += p.Reused
		dropped += p.Dropped
		poisoned += p.Poisoned
		p.mu.Unlock()
	}
	return
}

// Stream is a source of yields owned by exactly one goroutine at a time.
type Stream struct {
	r      rng
	slot   time.Duration
	Yields int
	Name   string
	Wakes  []int64 // fake wake instants (only with Config.Trace); owned by the stream's goroutine
}

// NewStream creates a yield stream; name must be unique within a run and independent of timing.
func NewStream(name string) *Stream {
	c := get()
	if c == nil || !c.Sched {
		return nil
	}
	// The slot is a function of the name, not of the order in which streams happen to be registered (two
	// goroutines made runnable by the same event may register theirs in either order). Only a hash collision
	// (about 0.5 % of runs with a hundred streams) falls back to probing.
	slot := int64(1 + hashString(0x51075, name)%uint64(Quantum-2))
	regMu.Lock()
	for usedSlots[slot] {
		slot = 1 + slot%int64(Quantum-2)
	}
	usedSlots[slot] = true
	regMu.Unlock()
	st := &Stream{r: rng{hashString(mix(c.Seed, 0x5eed), name)}, slot: time.Duration(slot), Name: name}
	regMu.Lock()
	streams = append(streams, st)
	regMu.Unlock()
	return st
}

// Yield gives up the processor: sleeps until a wake instant nobody else has. Inside a synctest bubble
// the fake clock only advances when every goroutine is durably blocked, so exactly one stream wakes at a
// time and runs until its next yield or blocking operation.
func (s *Stream) Yield() {
	if s == nil {
		return
	}
	c := get()
	if c == nil || !c.Sched {
		return
	}
	s.Yields++
	d := 1 + s.r.intn(max(1, c.MaxDelay))
	now := time.Duration(time.Now().UnixNano())
	wake := (now/Quantum+time.Duration(d))*Quantum + s.slot
	time.Sleep(wake - now)
	if c.Trace {
		s.Wakes = append(s.Wakes, int64(wake))
	}
}

// MaybeYield yields with the run's chunk probability.
func (s *Stream) MaybeYield() {
	if s == nil {
		return
	}
	c := get()
	if c == nil || !c.Sched {
		return
	}
	if c.YieldP >= 1 || s.r.float() < c.YieldP {
		s.Yield()
	}
}

// ---------------------------------------------------------------- preemption at synchronisation operations (R7)

// A goroutine that runs a simulated task binds its stream; At finds it again by goroutine id. The registry is
// written by the task itself when it starts and read only by that same goroutine, so it orders nothing between
// tasks except "registered" before later lookups.
type binding struct {
	st   *Stream
	held int // locks taken at rewritten sites and not yet released
}

var (
	bound      sync.Map // goroutine id -> *binding
	SyncPoints atomic.Int64
	SyncYields atomic.Int64
	SyncHeld   atomic.Int64 // points passed while holding a lock (no yield)
	SyncNoTask atomic.Int64 // points passed on a goroutine that is not a simulated task (no yield)
)

func goid() uint64 {
	var buf [64]byte
	n := runtime.Stack(buf[:], false)
	var id uint64
	for _, ch := range buf[len("goroutine "):n] {
		if ch < '0' || ch > '9' {
			break
		}
		id = id*10 + uint64(ch-'0')
	}
	return id
}

// Bind makes the calling goroutine a task that yields through st; the result undoes it.
func Bind(st *Stream) func() {
	if st == nil {
		return func() {}
	}
	id := goid()
	bound.Store(id, &binding{st: st})
	return func() { bound.Delete(id) }
}

func current() *binding {
	v, ok := bound.Load(goid())
	if !ok {
		return nil
	}
	return v.(*binding)
}

// At is placed in front of a synchronisation operation on x: the scheduler may preempt the goroutine here.
func At[T any](site string, x T) T {
	c := get()
	if c == nil || !c.Sched {
		return x
	}
	SyncPoints.Add(1)
	b := current()
	switch {
	case b == nil:
		SyncNoTask.Add(1)
	case b.held > 0:
		SyncHeld.Add(1)
	case b.st.r.intn(3) != 0:
		SyncYields.Add(1)
		b.st.Yield()
	}
	return x
}

// Held records that the calling task took (+1) or released (-1) a lock at a rewritten site.
func Held(d int) {
	c := get()
	if c == nil || !c.Sched {
		return
	}
	if b := current(); b != nil {
		b.held += d
		if b.held < 0 {
			b.held = 0
		}
	}
}

// Rand exposes the stream's PRNG for harness decisions tied to this stream.
func (s *Stream) Rand(n int) int {
	if s == nil {
		return 0
	}
	return s.r.intn(n)
}

var spawnCtr = new(sync.Map) // site -> *atomic.Uint64; touched by spawners only

func spawnIndex(site string) uint64 {
	v, _ := spawnCtr.LoadOrStore(site, new(atomic.Uint64))
	return v.(*atomic.Uint64).Add(1)
}

// TaskE wraps the function given to errgroup.Group.Go. It is evaluated in the parent, so the child's
// identity (site + spawn index) does not depend on which child happens to start first; the child yields
// before its first statement.
func TaskE(site string, f func() error) func() error {
	c := get()
	if c == nil || !c.Sched {
		return f
	}
	st := NewStream(fmt.Sprintf("task:%s#%d", site, spawnIndex(site)))
	return func() error {
		defer Bind(st)()
		st.Yield()
		return f()
	}
}

// Task is TaskE for `go func(){...}()`.
func Task(site string, f func()) func() {
	c := get()
	if c == nil || !c.Sched {
		return f
	}
	st := NewStream(fmt.Sprintf("task:%s#%d", site, spawnIndex(site)))
	return func() {
		defer Bind(st)()
		st.Yield()
		f()
	}
}

// Writer is what YieldWriter needs.
type Writer interface {
	Write(p []byte) (int, error)
}

type yieldWriter struct {
	w  Writer
	st *Stream
}

func (y *yieldWriter) Write(p []byte) (int, error) {
	y.st.MaybeYield()
	return y.w.Write(p)
}

// YieldWriter makes every chunk of output written to w a potential context switch.
func YieldWriter(site string, w Writer, label string) Writer {
	c := get()
	if c == nil || !c.Sched {
		return w
	}
	return &yieldWriter{w: w, st: NewStream("writer:" + site + ":" + label)}
}

// ---------------------------------------------------------------- R3: pools

// Pool replaces sync.Pool: a deterministic free list. Poisons *bytes.Buffer-like items on Put.
// Its lock orders Get/Put calls exactly as sync.Pool's own synchronisation does (Put happens before the
// Get that returns the item).
type Pool struct {
	New func() any

	mu    sync.Mutex
	items []any
	r     rng
	init  bool
	// counters
	Gets, Reused, Dropped, Poisoned int
}

// Poisoner lets items describe how to overwrite their dead contents.
type Poisoner interface{ SimPoison() }

func (p *Pool) Get() any {
	c := get()
	p.mu.Lock()
	if !p.init {
		p.init = true
		regMu.Lock()
		pools = append(pools, p)
		regMu.Unlock()
		seed := uint64(1)
		if c != nil {
			seed = c.Seed
		}
		p.r = rng{mix(seed, 0x9001)}
	}
	p.Gets++
	pol := 0
	if c != nil {
		pol = c.PoolPolicy
	}
	if len(p.items) > 0 {
		i := len(p.items) - 1
		switch pol {
		case 1:
			i = 0
		case 2:
			switch p.r.intn(4) {
			case 0: // the pool lost everything (GC)
				p.Dropped += len(p.items)
				p.items = nil
				i = -1
			case 1:
				i = 0
			case 2:
				i = p.r.intn(len(p.items))
			}
		}
		if i >= 0 {
			it := p.items[i]
			p.items = append(p.items[:i], p.items[i+1:]...)
			p.Reused++
			p.mu.Unlock()
			return it
		}
	}
	p.mu.Unlock()
	// New runs without the pool's lock: it is user code and may contain preemption points (R7)
	if p.New != nil {
		return p.New()
	}
	return nil
}

func (p *Pool) Put(x any) {
	if x == nil {
		return
	}
	c := get()
	if c != nil && c.Poison {
		if poison(x) {
			p.mu.Lock()
			p.Poisoned++
			p.mu.Unlock()
		}
	}
	p.mu.Lock()
	p.items = append(p.items, x)
	p.mu.Unlock()
}

// poison overwrites the dead contents of buffers so that a use after Put is visible as corruption.
func poison(x any) bool {
	switch v := x.(type) {
	case Poisoner:
		v.SimPoison()
		return true
	case interface{ Bytes() []byte }:
		b := v.Bytes()
		b = b[:cap(b)]
		for i := range b {
			b[i] = 0xDB
		}
		return true
	case *[]byte:
		b := (*v)[:cap(*v)]
		for i := range b {
			b[i] = 0xDB
		}
		return true
	}
	return false
}
