// Package simos stands in for the os functions the generator's CLI path uses (rule R4 of
// DESIGN.md 3.2). Without a plan in the environment every function is the real one. With
// VERIF_SIMOS_PLAN set, selected calls fail, are cut short, or crash the process; with
// VERIF_SIMOS_TRACE set, every call is appended to that file (O_APPEND, one write per line).
//
// Plan grammar:  fault(;fault)*   fault = op sel ":" action
//
//	op      ReadFile | ReadDir | MkdirAll | Remove | WriteFile | Create | Stat
//	sel     "#" n   the n-th call of that op (1-based), or
//	        "@" base the calls of that op whose path has this base name
//	action  EIO | ENOSPC | EACCES | EROFS | ENOENT   fail without effect
//	        short=<n>    (WriteFile) write only the first n bytes, then ENOSPC
//	        crash        exit(137) before the call takes effect
//	        crashafter   perform the call, then exit(137)
package simos

import (
	"fmt"
	"os"
	"path/filepath"
	"strconv"
	"strings"
	"sync"
	"syscall"
)

type fault struct {
	op     string
	nth    int
	base   string
	action string
	arg    int
}

var (
	mu     sync.Mutex
	loaded bool
	plan   []fault
	counts = map[string]int{}
	trace  *os.File
)

func load() {
	if loaded {
		return
	}
	loaded = true
	if p := os.Getenv("VERIF_SIMOS_TRACE"); p != "" {
		trace, _ = os.OpenFile(p, os.O_WRONLY|os.O_APPEND|os.O_CREATE, 0o644)
	}
	for _, f := range strings.Split(os.Getenv("VERIF_SIMOS_PLAN"), ";") {
		f = strings.TrimSpace(f)
		if f == "" {
			continue
		}
		head, action, ok := strings.Cut(f, ":")
		if !ok {
			die("bad fault " + f)
		}
		var ft fault
		if op, n, ok := strings.Cut(head, "#"); ok {
			ft.op = op
			ft.nth, _ = strconv.Atoi(n)
			if ft.nth <= 0 {
				die("bad fault " + f)
			}
		} else if op, base, ok := strings.Cut(head, "@"); ok {
			ft.op, ft.base = op, base
		} else {
			die("bad fault " + f)
		}
		if a, n, ok := strings.Cut(action, "="); ok {
			ft.action = a
			ft.arg, _ = strconv.Atoi(n)
		} else {
			ft.action = action
		}
		plan = append(plan, ft)
	}
}

func die(msg string) {
	fmt.Fprintln(os.Stderr, "simos:", msg)
	os.Exit(3)
}

// decide returns the fault for this call, if any, and logs the call.
func decide(op, path string) *fault {
	mu.Lock()
	defer mu.Unlock()
	load()
	counts[op]++
	n := counts[op]
	var hit *fault
	for i := range plan {
		f := &plan[i]
		if f.op != op {
			continue
		}
		if (f.nth > 0 && f.nth == n) || (f.base != "" && filepath.Base(path) == f.base) {
			hit = f
			break
		}
	}
	if trace != nil {
		act := "-"
		if hit != nil {
			act = hit.action
		}
		fmt.Fprintf(trace, "%s\t%d\t%s\t%s\n", op, n, path, act)
	}
	return hit
}

func errno(a string) error {
	switch a {
	case "EIO":
		return syscall.EIO
	case "ENOSPC":
		return syscall.ENOSPC
	case "EACCES":
		return syscall.EACCES
	case "EROFS":
		return syscall.EROFS
	case "ENOENT":
		return syscall.ENOENT
	}
	return nil
}

func pre(op, path string) (*fault, error) {
	f := decide(op, path)
	if f == nil {
		return nil, nil
	}
	if f.action == "crash" {
		os.Exit(137)
	}
	if e := errno(f.action); e != nil {
		return f, &os.PathError{Op: strings.ToLower(op), Path: path, Err: e}
	}
	return f, nil
}

func post(f *fault) {
	if f != nil && f.action == "crashafter" {
		os.Exit(137)
	}
}

func ReadFile(name string) ([]byte, error) {
	f, err := pre("ReadFile", name)
	if err != nil {
		return nil, err
	}
	b, e := os.ReadFile(name)
	post(f)
	return b, e
}

func ReadDir(name string) ([]os.DirEntry, error) {
	f, err := pre("ReadDir", name)
	if err != nil {
		return nil, err
	}
	b, e := os.ReadDir(name)
	post(f)
	return b, e
}

func MkdirAll(path string, perm os.FileMode) error {
	f, err := pre("MkdirAll", path)
	if err != nil {
		return err
	}
	e := os.MkdirAll(path, perm)
	post(f)
	return e
}

func Remove(name string) error {
	f, err := pre("Remove", name)
	if err != nil {
		return err
	}
	e := os.Remove(name)
	post(f)
	return e
}

func WriteFile(name string, data []byte, perm os.FileMode) error {
	f, err := pre("WriteFile", name)
	if err != nil {
		return err
	}
	if f != nil && f.action == "short" {
		n := f.arg
		if n > len(data) {
			n = len(data)
		}
		_ = os.WriteFile(name, data[:n], perm)
		return &os.PathError{Op: "write", Path: name, Err: syscall.ENOSPC}
	}
	e := os.WriteFile(name, data, perm)
	post(f)
	return e
}

func Create(name string) (*os.File, error) {
	f, err := pre("Create", name)
	if err != nil {
		return nil, err
	}
	fl, e := os.Create(name)
	post(f)
	return fl, e
}

func Stat(name string) (os.FileInfo, error) {
	f, err := pre("Stat", name)
	if err != nil {
		return nil, err
	}
	fi, e := os.Stat(name)
	post(f)
	return fi, e
}
