package xsim

// Corpus driver harness: raw requests against servers regenerated from the repository's corpus specs.
// This directory is combined with link.go and transport.go of simsrc/xsim at build time.

import (
	"bytes"
	"context"
	"crypto/sha256"
	"encoding/hex"
	"io"
	"net/http"
	"strings"
	"sync/atomic"

	"github.com/ogen-go/ogen/middleware"
)

// Call is one raw request.
type Call struct {
	Method string            `json:"method"`
	Path   string            `json:"path"` // escaped path
	Query  string            `json:"query,omitempty"`
	Header map[string]string `json:"header,omitempty"`
	CT     string            `json:"ct,omitempty"`
	Body   string            `json:"body,omitempty"`
	Fault  *Fault            `json:"fault,omitempty"`
	Reader string            `json:"reader,omitempty"`

	// typed calls (typed.go): the generated client's method TOp is invoked with values made from V
	TOp  string `json:"top,omitempty"`
	V    uint64 `json:"v,omitempty"`
	Edge bool   `json:"edge,omitempty"` // values outside the core domain are allowed
}

// CallRecord is everything observed about one call.
type CallRecord struct {
	Task       int    `json:"task"`
	Op         int    `json:"op"`
	Call       Call   `json:"call"`
	Tag        string `json:"tag"`
	fired      atomic.Bool
	sides      [3]*ServerSide
	links      [2][2]*link
	ReqBytes   int  `json:"req_bytes"`
	RespBytes  int  `json:"resp_bytes"`
	FaultFired bool `json:"fault_fired"`

	Sides []*ServerSide `json:"sides"`

	Returned  bool   `json:"returned"`
	ClientErr string `json:"client_err,omitempty"`
	Status    int    `json:"status"`
	BodySum   string `json:"body_sum,omitempty"`
	BodyLen   int    `json:"body_len"`

	T         *TypedRec `json:"typed,omitempty"`
	ReqCT     string    `json:"req_ct,omitempty"`     // Content-Type of the request as the client sent it
	ReqMethod string    `json:"req_method,omitempty"` // method and escaped path as they went on the wire (after an intermediary rewrote them)
	ReqPath   string    `json:"req_path,omitempty"`
}

func (r *CallRecord) fire() { r.fired.Store(true) }

func (r *CallRecord) seal() {
	r.FaultFired = r.fired.Load()
	for _, l := range r.links {
		if l[0] != nil {
			r.ReqBytes, r.RespBytes = l[0].Bytes, l[1].Bytes
		}
	}
	r.Sides = nil
	for _, s := range r.sides {
		if s != nil {
			r.Sides = append(r.Sides, s)
		}
	}
}

// recordingMiddleware flags "about to invoke the handler".
func recordingMiddleware(req middleware.Request, next middleware.Next) (middleware.Response, error) {
	if si := srvFrom(req.Context); si != nil {
		si.Side.MiddlewareOps++
		si.Side.HandlerCalls++ // the stub handler is what comes next
		si.Side.MiddlewareSaw = req.OperationName
		si.St.MaybeYield()
	}
	return next(req)
}

func sumBytes(b []byte) string {
	h := sha256.Sum256(b)
	return hex.EncodeToString(h[:8])
}

// doRaw performs one raw request through the transport.
func doRaw(ctx context.Context, tr *SimTransport, rec *CallRecord) {
	c := rec.Call
	u := "http://sim.test" + c.Path
	if c.Query != "" {
		u += "?" + c.Query
	}
	var body io.Reader
	if c.Body != "" || c.CT != "" {
		body = bytes.NewReader([]byte(c.Body))
	}
	req, err := http.NewRequestWithContext(ctx, c.Method, u, body)
	if err != nil {
		rec.Returned, rec.ClientErr = true, "build request: "+firstLine(err.Error())
		return
	}
	for k, v := range c.Header {
		req.Header.Set(k, v)
	}
	if c.CT != "" {
		req.Header.Set("Content-Type", c.CT)
	}
	resp, err := tr.Do(req)
	if err != nil {
		rec.Returned, rec.ClientErr = true, firstLine(err.Error())
		return
	}
	b, rerr := io.ReadAll(resp.Body)
	_ = resp.Body.Close()
	rec.Returned = true
	rec.Status = resp.StatusCode
	if rerr != nil {
		rec.ClientErr = "read response: " + firstLine(rerr.Error())
		return
	}
	rec.BodySum, rec.BodyLen = sumBytes(b), len(b)
}

func firstLine(s string) string {
	if i := strings.IndexByte(s, '\n'); i >= 0 {
		s = s[:i]
	}
	if len(s) > 300 {
		s = s[:300]
	}
	return s
}
