package xsim

import (
	"context"
	crand "crypto/rand"
	"crypto/sha256"
	"encoding/hex"
	"encoding/json"
	"fmt"
	"net/http"
	"net/url"
	"os"
	"reflect"
	"runtime"
	"sort"
	"sync"
	"sync/atomic"
	"syscall"
	"testing"
	"testing/synctest"
	"time"

	"github.com/ogen-go/ogen/simrt"
)

// Scenario is one complete, explicit simulated run against one corpus server.
type Scenario struct {
	World string   `json:"world"`
	ID    string   `json:"id"`
	Pkg   string   `json:"pkg"`
	Seed  uint64   `json:"seed"`
	Tasks [][]Call `json:"tasks"`

	YieldP     float64  `json:"yield_p"`
	MaxDelay   int      `json:"max_delay"`
	MinChunk   int      `json:"min_chunk"`
	MaxChunk   int      `json:"max_chunk"`
	PoolPolicy int      `json:"pool_policy"`
	Poison     bool     `json:"poison"`
	Procs      int      `json:"gomaxprocs"`
	MapPolicy  int      `json:"map_policy"`
	SkipAlone  bool     `json:"skip_alone,omitempty"`
	Typed      bool     `json:"typed,omitempty"`
	CustomNF   bool     `json:"custom_nf,omitempty"`   // typed scenarios: the server has the user's own NotFound and MethodNotAllowed handlers
	SharedResp bool     `json:"shared_resp,omitempty"` // typed scenarios: the handler hands the same response object to every request of a class
	Literals   []string `json:"literals,omitempty"`    // typed scenarios: the literal segments of the package's path templates
	Override   bool     `json:"override,omitempty"`    // typed scenarios: every call overrides the server URL with one URL value shared by all calls
	Prefix     string   `json:"prefix,omitempty"`      // typed scenarios: the server is mounted under this path prefix and the client is given the matching base URL
}

// Result of one scenario.
type Result struct {
	Aborted      bool          `json:"aborted,omitempty"`
	ID           string        `json:"id"`
	Alone        []*CallRecord `json:"alone,omitempty"`
	Conc         []*CallRecord `json:"conc"`
	Deadlock     string        `json:"deadlock,omitempty"`
	InputChanged string        `json:"input_changed,omitempty"` // a value the caller owns and passed in was modified
	ToolTrouble  string        `json:"tool_trouble,omitempty"`
	Yields       int           `json:"yields"`
	Streams      int           `json:"streams"`
	SchedHash    string        `json:"sched_hash"`
	Switches     int           `json:"switches"`
	SyncPoints   int           `json:"sync_points"`
	SyncYields   int           `json:"sync_yields"`
	FakeNS       int64         `json:"fake_ns"`
	WallMS       int64         `json:"wall_ms"`
}

type job struct {
	Scenarios []Scenario `json:"scenarios"`
	Out       string     `json:"out"`
}

type seededRand struct {
	seed   uint64
	ticket atomic.Uint64
}

func (s *seededRand) Read(p []byte) (int, error) {
	x := s.seed ^ (s.ticket.Add(1) * 0x9e3779b97f4a7c15)
	for i := range p {
		x += 0x9e3779b97f4a7c15
		z := x
		z = (z ^ (z >> 30)) * 0xbf58476d1ce4e5b9
		z = (z ^ (z >> 27)) * 0x94d049bb133111eb
		p[i] = byte(z ^ (z >> 31))
	}
	return len(p), nil
}

var maxWork time.Duration

type phaseInfo struct {
	deadlock     string
	inputChanged string
	trouble      string
	fake         time.Duration
}

func runPhase(t *testing.T, sc *Scenario, tasks [][]Call, faults, trivial bool, phase string, origin [2]int, alone map[[2]int]*CallRecord) (recs []*CallRecord, res phaseInfo) {
	cfg := &simrt.Config{Seed: sc.Seed, DefaultPolicy: simrt.Policy(sc.MapPolicy), Sched: true, YieldP: sc.YieldP, MaxDelay: sc.MaxDelay, Trace: !trivial, PoolPolicy: sc.PoolPolicy, Poison: sc.Poison}
	minC, maxC := sc.MinChunk, sc.MaxChunk
	if trivial {
		cfg.YieldP, cfg.MaxDelay, cfg.PoolPolicy = 0, 1, 0
		minC, maxC = 1<<20, 1<<20
	}
	simrt.Install(cfg)
	oldRand := crand.Reader
	crand.Reader = &seededRand{seed: sc.Seed ^ 0x5151}
	defer func() { crand.Reader = oldRand }()
	for ti, calls := range tasks {
		for oi, c := range calls {
			ti, oi := ti+origin[0], oi+origin[1]
			rec := &CallRecord{Task: ti, Op: oi, Call: c, Tag: fmt.Sprintf("t%d-o%d", ti, oi)}
			if c.TOp != "" {
				rec.T = &TypedRec{Op: c.TOp}
			}
			if !faults {
				rec.Call.Fault = nil
			} else if f := c.Fault; f != nil && f.Frac > 0 {
				g := *f
				if a := alone[[2]int{ti, oi}]; a != nil {
					total := a.ReqBytes
					if len(f.Kind) > 5 && f.Kind[len(f.Kind)-5:] == "-resp" {
						total = a.RespBytes
					}
					g.At = total * f.Frac / 1000
				}
				rec.Call.Fault = &g
			}
			recs = append(recs, rec)
		}
	}
	defer func() {
		if p := recover(); p != nil {
			buf := make([]byte, 1<<18)
			n := runtime.Stack(buf, true)
			res.deadlock = fmt.Sprint(p) + "\n" + string(buf[:n])
		}
		for _, r := range recs {
			r.seal()
			r.sealTyped(sc.Pkg)
		}
	}()
	synctest.Test(t, func(t *testing.T) {
		start := time.Now()
		var wg sync.WaitGroup
		tr := &SimTransport{MinChunk: minC, MaxChunk: maxC, WG: &wg}
		var client *typedClients
		var cannedCheck func() string
		var impls map[string][]reflect.Type
		if sc.Typed {
			tp := typedPkgs[sc.Pkg]
			if tp == nil {
				res.trouble = "unknown typed corpus package " + sc.Pkg
				return
			}
			impls = tp.Impls
			var nf http.HandlerFunc
			var mna func(http.ResponseWriter, *http.Request, string)
			if sc.CustomNF {
				nf, mna = customNotFound, customMethodNotAllowed
			}
			typedLabel, _ = tp.Label.(func(context.Context, string, string, func()) string)
			th, thCheck := typedHandler(tp.Impls, sc.SharedResp)
			cannedCheck = thCheck
			h, cl, whc, err := tp.New(sc.Prefix, th, typedNewError, typedFill, typedSecSaw, tr, SimErrorHandler, nf, mna, typedMiddleware, secondMiddleware)
			if err != nil {
				res.trouble = err.Error()
				return
			}
			tr.Handler, client = h, &typedClients{api: cl, webhook: whc, webhooks: tp.Webhooks, literals: sc.Literals}
			if f, ok := tp.WithURL.(func(context.Context, *url.URL) context.Context); ok && sc.Override {
				if u, err := url.Parse("http://sim.test" + sc.Prefix); err == nil {
					client.override, client.overrideText, client.withURL = u, fmt.Sprintf("%#v", *u), f
				}
			} else if len(tp.ReqOpts) == 4 && sc.Override {
				// the package takes its overrides as per-call request options
				if u, err := url.Parse("http://sim.test" + sc.Prefix); err == nil {
					client.override, client.overrideText, client.hc = u, fmt.Sprintf("%#v", *u), tr
					for _, o := range tp.ReqOpts {
						client.reqOpts = append(client.reqOpts, reflect.ValueOf(o))
					}
				}
			}
		} else {
			newServer := servers[sc.Pkg]
			if newServer == nil {
				res.trouble = "unknown corpus package " + sc.Pkg
				return
			}
			h, err := newServer(SimErrorHandler, recordingMiddleware, secondMiddleware)
			if err != nil {
				res.trouble = err.Error()
				return
			}
			tr.Handler = h
		}
		var cwg sync.WaitGroup
		idx := 0
		for ti, calls := range tasks {
			mine := recs[idx : idx+len(calls)]
			idx += len(calls)
			cwg.Add(1)
			st := simrt.NewStream(fmt.Sprintf("%s.client%d", phase, ti))
			go func(mine []*CallRecord) {
				defer cwg.Done()
				defer simrt.Bind(st)()
				for _, rec := range mine {
					st.Yield()
					func() {
						defer func() {
							if p := recover(); p != nil {
								rec.Returned = true
								rec.ClientErr = fmt.Sprint("client panic: ", p)
							}
						}()
						ctx, cancel := context.WithCancel(context.Background())
						defer cancel()
						ci := &callInfo{Task: rec.Task, Op: rec.Op, Fault: rec.Call.Fault, St: st, Rec: rec}
						ctx = context.WithValue(ctx, callKey{}, ci)
						if f := rec.Call.Fault; f != nil && f.Kind == "cancel" {
							cst := simrt.NewStream(fmt.Sprintf("%s.cancel.t%d.o%d", phase, rec.Task, rec.Op))
							var done atomic.Bool
							defer done.Store(true)
							tr.WG.Add(1)
							go func() {
								defer tr.WG.Done()
								for i := 0; i < f.At; i++ {
									cst.Yield()
									if done.Load() {
										return
									}
								}
								rec.fire()
								cancel()
							}()
						}
						if rec.T != nil {
							doTyped(ctx, client, impls, rec)
						} else {
							doRaw(ctx, tr, rec)
						}
					}()
				}
			}(mine)
		}
		cwg.Wait()
		wg.Wait()
		if client != nil && client.override != nil {
			if now := fmt.Sprintf("%#v", *client.override); now != client.overrideText {
				res.inputChanged = "the URL value passed to WithServerURL was " + client.overrideText + " and is now " + now
			}
		}
		if cannedCheck != nil && res.inputChanged == "" {
			res.inputChanged = cannedCheck()
		}
		work := time.Since(start)
		if work > maxWork {
			maxWork = work
		}
		res.fake = work
		time.Sleep(maxWork + 30*time.Second)
	})
	return recs, res
}

func runScenario(t *testing.T, sc Scenario) Result {
	t0 := time.Now()
	res := Result{ID: sc.ID}
	procs := sc.Procs
	if procs <= 0 {
		procs = 4
	}
	prev := runtime.GOMAXPROCS(procs)
	defer runtime.GOMAXPROCS(prev)
	aloneBy := map[[2]int]*CallRecord{}
	if !sc.SkipAlone {
		for ti, calls := range sc.Tasks {
			for oi, c := range calls {
				recs, pi := runPhase(t, &sc, [][]Call{{c}}, false, true, "alone", [2]int{ti, oi}, nil)
				if pi.trouble != "" {
					res.ToolTrouble = pi.trouble
					return res
				}
				if pi.deadlock != "" {
					res.Deadlock = "alone phase: " + pi.deadlock
				}
				res.Alone = append(res.Alone, recs[0])
				aloneBy[[2]int{ti, oi}] = recs[0]
			}
		}
	}
	recs, pi := runPhase(t, &sc, sc.Tasks, true, false, "conc", [2]int{}, aloneBy)
	res.Conc = recs
	res.InputChanged = pi.inputChanged
	res.Deadlock += pi.deadlock
	res.ToolTrouble = pi.trouble
	res.FakeNS = pi.fake.Nanoseconds()
	streams := simrt.Streams()
	res.Streams = len(streams)
	type ev struct {
		at int64
		s  int
	}
	var evs []ev
	for i, st := range streams {
		res.Yields += st.Yields
		for _, w := range st.Wakes {
			evs = append(evs, ev{w, i})
		}
	}
	sort.Slice(evs, func(i, j int) bool { return evs[i].at < evs[j].at })
	h := sha256.New()
	last := -1
	for _, e := range evs {
		fmt.Fprintf(h, "%d:%s;", e.at, streams[e.s].Name)
		if last >= 0 && last != e.s {
			res.Switches++
		}
		last = e.s
	}
	res.SchedHash = hex.EncodeToString(h.Sum(nil)[:8])
	res.SyncPoints, res.SyncYields = int(simrt.SyncPoints.Load()), int(simrt.SyncYields.Load())
	simrt.Install(nil)
	res.WallMS = time.Since(t0).Milliseconds()
	return res
}

func TestSim(t *testing.T) {
	jp := os.Getenv("VERIF_SIM_JOB")
	if jp == "" {
		t.Skip("no VERIF_SIM_JOB")
	}
	b, err := os.ReadFile(jp)
	if err != nil {
		t.Fatal(err)
	}
	var j job
	if err := json.Unmarshal(b, &j); err != nil {
		t.Fatal(err)
	}
	out, err := os.OpenFile(j.Out, os.O_CREATE|os.O_WRONLY|os.O_APPEND, 0o644)
	if err != nil {
		t.Fatal(err)
	}
	defer out.Close()
	for i, sc := range j.Scenarios {
		fmt.Fprintf(os.Stderr, "\nSCENARIO-BEGIN %d %s\n", i, sc.ID)
		t.Run(fmt.Sprint(i), func(t *testing.T) {
			res := Result{ID: sc.ID, Aborted: true}
			defer func() {
				fmt.Fprintf(os.Stderr, "\nSCENARIO-END %d %s\n", i, sc.ID)
				line, _ := json.Marshal(res)
				_, _ = out.Write(append(line, '\n'))
			}()
			wd := time.AfterFunc(5*time.Minute, func() {
				buf := make([]byte, 1<<20)
				n := runtime.Stack(buf, true)
				fmt.Fprintf(os.Stderr, "\nWATCHDOG scenario %d %s stalled\n%s\n", i, sc.ID, buf[:n])
				syscall.Exit(3)
			})
			defer wd.Stop()
			res = runScenario(t, sc)
		})
	}
}
