package xsim

// Reflective typed exchange over regenerated corpus packages: values of the generated request, parameter
// and response types are made from a seed by reflection, sent with the generated client through the
// simulated link to the generated server, and what the handler, the middleware and the caller receive is
// compared, as a tree, with what was supplied. Nothing here knows an operation, a type or a spec by name.

import (
	"bytes"
	"context"
	"crypto/sha256"
	"encoding/hex"
	"encoding/json"
	"errors"
	"fmt"
	"hash/fnv"
	"io"
	"math"
	"math/big"
	"mime"
	"net"
	"net/http"
	"net/netip"
	"net/url"
	"reflect"
	"regexp"
	"sort"
	"strconv"
	"strings"
	"sync"
	"sync/atomic"
	"time"

	ht "github.com/ogen-go/ogen/http"
	"github.com/ogen-go/ogen/middleware"
	"github.com/ogen-go/ogen/ogenerrors"
)

type typedPkg struct {
	New      func(prefix string, cb func(ctx context.Context, op string, args []any, res any) error, ne func(ctx context.Context, err error, res any), fill func(context.Context, any), saw func(context.Context, any) error, hc ht.Client, eh func(context.Context, http.ResponseWriter, *http.Request, error), nf http.HandlerFunc, mna func(http.ResponseWriter, *http.Request, string), mws ...middleware.Middleware) (http.Handler, any, any, error)
	Impls    map[string][]reflect.Type
	Ops      []string
	Webhooks map[string]string // webhook operation -> webhook name
	WithURL  any               // func(context.Context, *url.URL) context.Context: the per-call override of the server URL, if any
	Label    any               // func(ctx, key, val string, pause func()) string: adds a label through the package's Labeler, returns what it holds
	ReqOpts  []any             // the per-call request options of the package (client, server URL, edit request, edit response), or nil
}

// typedLabel is the Label function of the package the running scenario uses (nil: the package has no Labeler).
var typedLabel func(ctx context.Context, key, val string, pause func()) string

// useLabeler: what an application does with the Labeler in a handler of its own: it adds a label that names the
// request, does something else, and reads the labels back. They must be its own.
func useLabeler(ctx context.Context, si *srvInfo, where string) {
	if typedLabel == nil || si == nil || si.Call == nil || si.Call.Rec == nil {
		return
	}
	val := fmt.Sprintf("%s-t%d-o%d-d%d", where, si.Call.Rec.Task, si.Call.Rec.Op, si.Idx)
	got := typedLabel(ctx, "sim.request", val, func() { si.St.Yield() })
	if !strings.Contains(got, val) || strings.Count(got, "sim.request") != 1 {
		si.Side.LabelsForeign = "added sim.request=" + val + ", the Labeler then held " + got
	}
}

// typedClients is what a typed scenario calls: the client, and the webhook client if the package has one.
type typedClients struct {
	api, webhook any
	webhooks     map[string]string
	// override: every call of the scenario overrides the server URL with this one URL value, which the caller owns
	// and shares between its calls (the same text the client was constructed with)
	override     *url.URL
	overrideText string
	withURL      func(context.Context, *url.URL) context.Context
	literals     []string // the literal segments of the package's path templates
	// reqOpts: the package's per-call request options (WithRequestClient, WithServerURL, WithEditRequest,
	// WithEditResponse), used by the calls of a scenario that overrides; hc is the client they were built around
	reqOpts []reflect.Value
	hc      ht.Client
}

// ownClient is the HTTP client one call brings along (WithRequestClient): it must carry that call and no other.
type ownClient struct {
	next ht.Client
	ci   *callInfo
	tr   *TypedRec
}

func (o *ownClient) Do(req *http.Request) (*http.Response, error) {
	o.tr.optOwnDo.Add(1)
	if infoFrom(req.Context()) != o.ci {
		o.tr.optForeign.Add(1)
	}
	o.ci.St.MaybeYield()
	return o.next.Do(req)
}

// callOptions: the per-call options of one call, chosen by its value seed. Every hook checks that what it is shown
// belongs to the call that brought it, and counts.
func callOptions(cls *typedClients, ci *callInfo, tr *TypedRec, v uint64, webhook bool) []reflect.Value {
	if len(cls.reqOpts) != 4 || ci == nil {
		return nil
	}
	var out []reflect.Value
	sel := (v >> 3) & 15
	tr.OptSel = int(sel) + 16
	if sel&1 != 0 {
		tr.optHasClient = true
		out = append(out, cls.reqOpts[0].Call([]reflect.Value{reflect.ValueOf(ht.Client(&ownClient{next: cls.hc, ci: ci, tr: tr})).Convert(cls.reqOpts[0].Type().In(0))})[0])
	}
	if sel&2 != 0 && !webhook && cls.override != nil {
		out = append(out, cls.reqOpts[1].Call([]reflect.Value{reflect.ValueOf(cls.override)})[0])
	}
	if sel&4 != 0 {
		tr.optHasEditReq = true
		out = append(out, cls.reqOpts[2].Call([]reflect.Value{reflect.ValueOf(func(req *http.Request) error {
			tr.optEditReq.Add(1)
			if tr.optOwnDo.Load() != 0 {
				tr.optLate.Add(1)
			}
			if infoFrom(req.Context()) != ci {
				tr.optForeign.Add(1)
			}
			ci.St.MaybeYield()
			return nil
		})})[0])
	}
	if sel&8 != 0 {
		tr.optHasEditResp = true
		out = append(out, cls.reqOpts[3].Call([]reflect.Value{reflect.ValueOf(func(resp *http.Response) error {
			tr.optEditResp.Add(1)
			if resp == nil || resp.Request == nil || infoFrom(resp.Request.Context()) != ci {
				tr.optForeign.Add(1)
			}
			ci.St.MaybeYield()
			return nil
		})})[0])
	}
	return out
}

// ---------------------------------------------------------------- trees

// Node is the canonical, ogen-free rendering of a value.
type Node struct {
	T string   `json:"t"`
	V string   `json:"v,omitempty"`
	N []string `json:"n,omitempty"`
	C []*Node  `json:"c,omitempty"`
}

func (n *Node) String() string {
	if n == nil {
		return "<none>"
	}
	var sb strings.Builder
	n.render(&sb)
	return sb.String()
}

func (n *Node) render(sb *strings.Builder) {
	sb.WriteString(n.T)
	if n.V != "" || len(n.C) == 0 {
		sb.WriteString("(" + n.V + ")")
	}
	if len(n.C) > 0 {
		sb.WriteString("{")
		for i, c := range n.C {
			if i < len(n.N) {
				sb.WriteString(n.N[i] + ":")
			}
			c.render(sb)
			sb.WriteString(" ")
		}
		sb.WriteString("}")
	}
}

func digest(ns ...*Node) string {
	h := sha256.New()
	for _, n := range ns {
		io.WriteString(h, n.String())
		io.WriteString(h, "|")
	}
	return hex.EncodeToString(h.Sum(nil)[:8])
}

// simReader is a body the harness supplies: its content is known without reading it.
type simReader struct {
	*bytes.Reader
	content []byte
}

func newSimReader(b []byte) *simReader { return &simReader{Reader: bytes.NewReader(b), content: b} }

var (
	timeType     = reflect.TypeOf(time.Time{})
	durationType = reflect.TypeOf(time.Duration(0))
	urlType      = reflect.TypeOf(url.URL{})
	addrType     = reflect.TypeOf(netip.Addr{})
	macType      = reflect.TypeOf(net.HardwareAddr{})
	ipType       = reflect.TypeOf(net.IP{})
	readerType   = reflect.TypeOf((*io.Reader)(nil)).Elem()
	fileType     = reflect.TypeOf(ht.MultipartFile{})
)

func isRaw(t reflect.Type) bool {
	return t.Kind() == reflect.Slice && t.Elem().Kind() == reflect.Uint8 && t.Name() == "Raw" && strings.HasSuffix(t.PkgPath(), "/jx")
}

// optShape reports whether t is one of ogen's optional/nullable wrappers: struct{Value T; Set bool},
// struct{Value T; Null bool} or struct{Value T; Set bool; Null bool}.
func optShape(t reflect.Type) (set, null int, ok bool) {
	if t.Kind() != reflect.Struct || t.NumField() < 2 || t.NumField() > 3 || t.Field(0).Name != "Value" {
		return 0, 0, false
	}
	set, null = -1, -1
	for i := 1; i < t.NumField(); i++ {
		f := t.Field(i)
		if f.Type.Kind() != reflect.Bool {
			return 0, 0, false
		}
		switch f.Name {
		case "Set":
			set = i
		case "Null":
			null = i
		default:
			return 0, 0, false
		}
	}
	return set, null, true
}

// sumShape reports whether t is a generated sum type: struct{Type <t>Type; <variant fields>}.
func sumShape(t reflect.Type) bool {
	if t.Kind() != reflect.Struct || t.NumField() < 2 {
		return false
	}
	f := t.Field(0)
	return f.Name == "Type" && f.Type.Kind() == reflect.String && f.Type.Name() == t.Name()+"Type"
}

// snap renders v. readers: read and render the content of foreign readers (consumes them); otherwise they
// are rendered as "reader(?)", which compares equal to any reader.
func snap(v reflect.Value, readers bool, depth int) *Node {
	n := snap0(v, readers, depth)
	if v.IsValid() {
		// a named type of the generated package is part of the value's identity (response variants that are
		// named slices, maps or primitives)
		if t := v.Type(); t.Name() != "" && strings.Contains(t.PkgPath(), "/cx/") {
			switch t.Kind() {
			case reflect.Slice, reflect.Map, reflect.Array:
				if !strings.Contains(n.T, ":") {
					n.T += ":" + t.Name()
				}
			}
		}
	}
	return n
}

func snap0(v reflect.Value, readers bool, depth int) *Node {
	if !v.IsValid() {
		return &Node{T: "nil"}
	}
	if depth > 40 {
		return &Node{T: "deep"}
	}
	t := v.Type()
	switch {
	case t == timeType:
		// in its own zone: a date or a time of day is the one the value shows there
		return &Node{T: "time", V: v.Interface().(time.Time).Format(time.RFC3339Nano)}
	case t == urlType:
		u := v.Interface().(url.URL)
		return &Node{T: "url", V: u.String()}
	case t == addrType:
		return &Node{T: "ip", V: v.Interface().(netip.Addr).String()}
	case t == macType:
		return &Node{T: "mac", V: v.Interface().(net.HardwareAddr).String()}
	case t == ipType:
		return &Node{T: "ip", V: v.Interface().(net.IP).String()}
	case t == durationType:
		return &Node{T: "dur", V: v.Interface().(time.Duration).String()}
	case t == fileType:
		f := v.Interface().(ht.MultipartFile)
		return &Node{T: "file", N: []string{"Name", "File"}, C: []*Node{{T: "str", V: f.Name}, snapReader(f.File, readers)}}
	case isRaw(t):
		var bb bytes.Buffer
		if err := json.Compact(&bb, v.Bytes()); err != nil {
			return &Node{T: "raw", V: "invalid:" + hex.EncodeToString(v.Bytes())}
		}
		return &Node{T: "raw", V: bb.String()}
	}
	switch v.Kind() {
	case reflect.Pointer:
		if v.IsNil() {
			return &Node{T: "nil"}
		}
		if sr, ok := v.Interface().(*simReader); ok {
			return snapReader(sr, readers)
		}
		return snap(v.Elem(), readers, depth+1)
	case reflect.Interface:
		if v.IsNil() {
			return &Node{T: "nil"}
		}
		if t == readerType {
			return snapReader(v.Interface().(io.Reader), readers)
		}
		return snap(v.Elem(), readers, depth+1)
	case reflect.Struct:
		if set, null, ok := optShape(t); ok {
			if set >= 0 && !v.Field(set).Bool() {
				return &Node{T: "unset"}
			}
			if null >= 0 && v.Field(null).Bool() {
				return &Node{T: "null"}
			}
			return snap(v.Field(0), readers, depth+1)
		}
		n := &Node{T: "struct:" + t.Name()}
		if sumShape(t) {
			// only the selected variant carries meaning
			n.T = "sum:" + t.Name()
			sel := v.Field(0).String()
			n.N = append(n.N, "Type")
			n.C = append(n.C, &Node{T: "str", V: sel})
			ptr := reflect.New(t)
			ptr.Elem().Set(v)
			for i := 1; i < t.NumField(); i++ {
				is := ptr.MethodByName("Is" + t.Field(i).Name)
				if is.IsValid() && is.Type().NumIn() == 0 && is.Type().NumOut() == 1 && is.Call(nil)[0].Bool() {
					n.N = append(n.N, t.Field(i).Name)
					n.C = append(n.C, snap(v.Field(i), readers, depth+1))
				}
			}
			return n
		}
		for i := 0; i < t.NumField(); i++ {
			f := t.Field(i)
			if !f.IsExported() {
				continue
			}
			n.N = append(n.N, f.Name)
			n.C = append(n.C, snap(v.Field(i), readers, depth+1))
		}
		return n
	case reflect.Slice, reflect.Array:
		if t.Elem().Kind() == reflect.Uint8 {
			b := make([]byte, v.Len())
			reflect.Copy(reflect.ValueOf(b), v)
			return &Node{T: "bytes", V: hex.EncodeToString(b)}
		}
		n := &Node{T: "list"}
		for i := 0; i < v.Len(); i++ {
			n.C = append(n.C, snap(v.Index(i), readers, depth+1))
		}
		return n
	case reflect.Map:
		n := &Node{T: "map"}
		keys := v.MapKeys()
		sort.Slice(keys, func(i, j int) bool { return fmt.Sprint(keys[i]) < fmt.Sprint(keys[j]) })
		for _, k := range keys {
			n.N = append(n.N, fmt.Sprintf("%q", fmt.Sprint(k)))
			n.C = append(n.C, snap(v.MapIndex(k), readers, depth+1))
		}
		return n
	case reflect.String:
		return &Node{T: "str", V: strconv.Quote(v.String())}
	case reflect.Bool:
		return &Node{T: "bool", V: strconv.FormatBool(v.Bool())}
	case reflect.Int, reflect.Int8, reflect.Int16, reflect.Int32, reflect.Int64:
		return &Node{T: "int", V: strconv.FormatInt(v.Int(), 10)}
	case reflect.Uint, reflect.Uint8, reflect.Uint16, reflect.Uint32, reflect.Uint64:
		return &Node{T: "int", V: strconv.FormatUint(v.Uint(), 10)}
	case reflect.Float32, reflect.Float64:
		f := v.Float()
		if f == 0 {
			f = 0 // -0 and +0 are one number
		}
		return &Node{T: "num", V: strconv.FormatFloat(f, 'g', -1, 64)}
	}
	return &Node{T: "other:" + t.String(), V: fmt.Sprint(v.Interface())}
}

func snapReader(r io.Reader, readers bool) *Node {
	if r == nil {
		return &Node{T: "nil"}
	}
	if sr, ok := r.(*simReader); ok {
		return readerNode(sr.content)
	}
	if !readers {
		return &Node{T: "reader", V: "?"}
	}
	b, err := io.ReadAll(r)
	if err != nil {
		n := readerNode(b)
		n.V += " error:" + firstLine(err.Error())
		return n
	}
	return readerNode(b)
}

func readerNode(b []byte) *Node {
	if len(b) <= 48 {
		return &Node{T: "reader", V: "x" + hex.EncodeToString(b)}
	}
	return &Node{T: "reader", V: fmt.Sprintf("len=%d sha=%s", len(b), sumBytes(b))}
}

// diff compares what was supplied with what arrived. The deliberate relaxations: an unset optional may
// arrive set (a schema default; recorded for the consistency rule); a time may arrive reduced to the date
// or the time of day its format carries; readers that were not read compare equal to anything.
func diff(path string, a, b *Node, defaults map[string]string, out *[]string) {
	diffIn(path, a, b, defaults, out, "")
}

// streamErr marks a difference that consists of a stream ending with an error: the receiver was told.
const streamErr = "STREAMERR "

func diffIn(path string, a, b *Node, defaults map[string]string, out *[]string, variant string) {
	if len(*out) > 6 {
		return
	}
	a, b = mergeExtra(a), mergeExtra(b)
	a, b = dropDupKeys(a, b)
	if a.T == "str" && b.T == "str" && a.V != b.V && strings.HasSuffix(path, ".ContentType") {
		// the media type arrived without its parameters (or in another case): its own class
		sa, err1 := strconv.Unquote(a.V)
		sb, err2 := strconv.Unquote(b.V)
		if err1 == nil && err2 == nil {
			if ma, _, e1 := mime.ParseMediaType(sa); e1 == nil && ma == strings.ToLower(sb) {
				*out = append(*out, ctParams+fmt.Sprintf("%s: supplied %s, arrived %s", path, a.V, b.V))
				return
			}
		}
	}
	if a.T == "num" && b.T == "num" && a.V != b.V && !strings.Contains(path, "Params.") {
		// one unit in the last place, in a body: the JSON number reader of the jx dependency (its fast path for
		// numbers with a fraction) is inexact for some 16-17 digit texts; reported as its own class
		fa, err1 := strconv.ParseFloat(a.V, 64)
		fb, err2 := strconv.ParseFloat(b.V, 64)
		if err1 == nil && err2 == nil && math.Nextafter(fa, fb) == fb {
			*out = append(*out, numULP+fmt.Sprintf("%s: supplied %s, arrived %s", path, a.V, b.V))
			return
		}
	}
	if variant != "" && a.T == "str" && b.T == "str" && a.V != b.V && defaults != nil {
		// A text member directly inside a variant of a sum: the discriminator property is written by ogen from
		// the variant, whatever the member holds. Tolerated when it arrives as the same text every time.
		defaults["discriminator "+variant+" "+path] = b.V
		return
	}
	if a.T == "int" && b.T == "int" && a.V == "0" && b.V == "200" && strings.HasSuffix(path, ".StatusCode") {
		return // a status code left unset means 200
	}
	if a.T == "unset" && b.T != "unset" {
		if defaults != nil {
			defaults[path] = b.String()
		}
		return
	}
	if b.T == "unset" && hollow(a) {
		// a container without a single member set: parameter styles and forms have no way to say "present but
		// empty", so it may arrive as absent
		return
	}
	if a.T == "reader" && b.T == "reader" && (a.V == "?" || b.V == "?") {
		return
	}
	if a.T == "reader" && b.T == "reader" && strings.Contains(b.V, " error:") {
		*out = append(*out, streamErr+fmt.Sprintf("%s: supplied %s, arrived %s", path, a.V, b.V))
		return
	}
	if a.T == "time" && b.T == "time" {
		if !timeCarried(a.V, b.V) {
			*out = append(*out, fmt.Sprintf("%s: supplied %s, arrived %s", path, a.V, b.V))
		}
		return
	}
	if strings.HasPrefix(a.T, "sum:") && a.T == b.T && len(a.C) == 2 && len(b.C) == 2 && a.C[0].V != b.C[0].V && (sameMembers(a.C[1], b.C[1]) || sameNumber(a.C[1], b.C[1])) {
		// Another variant arrived whose members are exactly the members supplied: the document does not say which
		// variant was meant (a oneOf whose variants are not told apart by the members present).
		return
	}
	if strings.HasPrefix(a.T, "map") && a.T == b.T && len(b.C) < len(a.C) && subMap(b, a) {
		*out = append(*out, mapDropped+fmt.Sprintf("%s: supplied %s, arrived %s", path, clipS(a.String(), 300), clipS(b.String(), 300)))
		return
	}
	if strings.HasPrefix(a.T, "list") && a.T == b.T && len(a.C) == 0 && len(b.C) == 1 && b.C[0].T == "str" && b.C[0].V == `""` {
		// An empty list of texts written in a joined (non-exploded) style is an empty value on the wire, which reads
		// back as one empty text: its own class (one cause whatever the operation; known finding F-15).
		*out = append(*out, emptyList+fmt.Sprintf("%s: supplied %s, arrived %s", path, a.String(), b.String()))
		return
	}
	if a.T != b.T || a.V != b.V || len(a.C) != len(b.C) {
		*out = append(*out, fmt.Sprintf("%s: supplied %s, arrived %s", path, clipS(a.String(), 300), clipS(b.String(), 300)))
		return
	}
	for i := range a.C {
		name := strconv.Itoa(i)
		if i < len(a.N) {
			name = a.N[i]
			if i >= len(b.N) || b.N[i] != name {
				*out = append(*out, fmt.Sprintf("%s: member %s supplied, %v arrived", path, name, b.N))
				return
			}
		}
		p := path + "." + name
		if strings.HasPrefix(a.T, "struct:") {
			p = a.T[7:] + "." + name // defaults are properties of the type, not of the place
		}
		v := ""
		if strings.HasPrefix(a.T, "sum:") && i > 0 {
			v = a.T[4:] + "." + name // the children of the selected variant's struct
		}
		if v != "" && strings.HasPrefix(a.C[i].T, "struct:") {
			// descend into the variant struct: its direct text members may be the discriminator
			diffVariant(p, a.C[i], b.C[i], defaults, out, v)
			continue
		}
		diffIn(p, a.C[i], b.C[i], defaults, out, "")
	}
}

// sameNumber: an integral number is both an integer and a number; the document does not say which variant
// of a sum of the two was meant.
func sameNumber(a, b *Node) bool {
	if (a.T != "int" && a.T != "num") || (b.T != "int" && b.T != "num") {
		return false
	}
	fa, err1 := strconv.ParseFloat(a.V, 64)
	fb, err2 := strconv.ParseFloat(b.V, 64)
	return err1 == nil && err2 == nil && fa == fb
}

var extraMembers = regexp.MustCompile(`^(AdditionalProps|Pattern[0-9]+Props)$`)

// mergeExtra: a struct's additional and pattern members form one set on the wire; which Go map a member
// lands in is decided by its key alone. A struct node with several such maps gets them merged into one.
func mergeExtra(n *Node) *Node {
	if !strings.HasPrefix(n.T, "struct:") {
		return n
	}
	cnt := 0
	for i, name := range n.N {
		if extraMembers.MatchString(name) && i < len(n.C) && strings.HasPrefix(n.C[i].T, "map") {
			cnt++
		}
	}
	if cnt < 2 {
		return n
	}
	m := &Node{T: n.T}
	merged := &Node{T: "map"}
	type kv struct {
		k string
		v *Node
	}
	var kvs []kv
	for i, name := range n.N {
		if extraMembers.MatchString(name) && strings.HasPrefix(n.C[i].T, "map") {
			for j, k := range n.C[i].N {
				kvs = append(kvs, kv{k, n.C[i].C[j]})
			}
			continue
		}
		m.N = append(m.N, name)
		m.C = append(m.C, n.C[i])
	}
	sort.SliceStable(kvs, func(i, j int) bool { return kvs[i].k < kvs[j].k })
	for _, e := range kvs {
		merged.N = append(merged.N, e.k)
		merged.C = append(merged.C, e.v)
	}
	m.N = append(m.N, "ExtraMembers")
	m.C = append(m.C, merged)
	return m
}

// ctParams marks a media type that arrived as the bare type.
const ctParams = "CTPARAMS "

// emptyList marks an empty list of texts that arrived as one empty text.
const emptyList = "EMPTYLIST "

// numULP marks a number that arrived one unit in the last place away.
const numULP = "NUMULP "

// dropDupKeys: when the supplied additional and pattern maps of one struct hold the same key twice, the wire
// carries the member twice and which one wins is not the property's business: such keys are left out on both sides.
func dropDupKeys(a, b *Node) (*Node, *Node) {
	if !strings.HasPrefix(a.T, "struct:") || len(a.N) == 0 || a.N[len(a.N)-1] != "ExtraMembers" {
		return a, b
	}
	am := a.C[len(a.C)-1]
	dup := map[string]bool{}
	for i := 1; i < len(am.N); i++ {
		if am.N[i] == am.N[i-1] {
			dup[am.N[i]] = true
		}
	}
	if len(dup) == 0 {
		return a, b
	}
	strip := func(n *Node) *Node {
		if !strings.HasPrefix(n.T, "struct:") || len(n.N) == 0 || n.N[len(n.N)-1] != "ExtraMembers" {
			return n
		}
		m := n.C[len(n.C)-1]
		nm := &Node{T: m.T}
		for i, k := range m.N {
			if !dup[k] {
				nm.N = append(nm.N, k)
				nm.C = append(nm.C, m.C[i])
			}
		}
		cp := *n
		cp.C = append(append([]*Node{}, n.C[:len(n.C)-1]...), nm)
		return &cp
	}
	return strip(a), strip(b)
}

// hasSum: the tree contains a value of a generated sum type.
func hasSum(n *Node) bool {
	if strings.HasPrefix(n.T, "sum:") {
		return true
	}
	for _, c := range n.C {
		if hasSum(c) {
			return true
		}
	}
	return false
}

// hollow: a struct, map or list in which nothing is set.
func hollow(n *Node) bool {
	if !(strings.HasPrefix(n.T, "struct:") || strings.HasPrefix(n.T, "map") || strings.HasPrefix(n.T, "list")) {
		return false
	}
	for _, c := range n.C {
		if c.T != "unset" && !hollow(c) {
			return false
		}
	}
	return true
}

// mapDropped marks a difference that consists of map members that did not arrive (the rest arrived exactly).
const mapDropped = "MAPDROPPED "

// subMap: every member of b is a member of a with the same value.
func subMap(b, a *Node) bool {
	for i, k := range b.N {
		found := false
		for j, ka := range a.N {
			if ka == k {
				var ds []string
				diffIn("", a.C[j], b.C[i], nil, &ds, "")
				found = len(ds) == 0
			}
		}
		if !found {
			return false
		}
	}
	return true
}

// sameMembers: two structs hold the same set members (by name) with the same values.
func sameMembers(a, b *Node) bool {
	if !strings.HasPrefix(a.T, "struct:") || !strings.HasPrefix(b.T, "struct:") {
		return false
	}
	set := func(n *Node) map[string]*Node {
		m := map[string]*Node{}
		for i, name := range n.N {
			if i < len(n.C) && n.C[i].T != "unset" {
				m[name] = n.C[i]
			}
		}
		return m
	}
	ma, mb := set(a), set(b)
	if len(ma) != len(mb) {
		return false
	}
	for k, va := range ma {
		vb := mb[k]
		if vb == nil {
			return false
		}
		var ds []string
		diffIn("", va, vb, nil, &ds, "")
		if len(ds) != 0 {
			return false
		}
	}
	return true
}

// diffVariant compares the struct selected in a sum; only its direct members get the discriminator tolerance.
func diffVariant(path string, a, b *Node, defaults map[string]string, out *[]string, variant string) {
	if a.T != b.T || len(a.C) != len(b.C) {
		diffIn(path, a, b, defaults, out, "")
		return
	}
	for i := range a.C {
		name := strconv.Itoa(i)
		if i < len(a.N) {
			name = a.N[i]
		}
		c, d := a.C[i], b.C[i]
		if c.T == "str" && d.T == "str" {
			diffIn(a.T[7:]+"."+name, c, d, defaults, out, variant)
		} else {
			diffIn(a.T[7:]+"."+name, c, d, defaults, out, "")
		}
	}
}

func clipS(s string, n int) string {
	if len(s) > n {
		return s[:n] + "…"
	}
	return s
}

// timeCarried: b is a at the resolution of some time format: the same instant, or a's date and/or a's time
// of day (whole seconds, minutes or hours) with the other part zero.
func timeCarried(as, bs string) bool {
	a, err1 := time.Parse(time.RFC3339Nano, as)
	b, err2 := time.Parse(time.RFC3339Nano, bs)
	if err1 != nil || err2 != nil {
		return as == bs
	}
	if a.Equal(b) {
		return true
	}
	ay, am, ad := a.Date()
	by, bm, bd := b.Date()
	dateSame := ay == by && am == bm && ad == bd
	dateZero := (by == 0 || by == 1) && bm == 1 && bd == 1
	at := a.Sub(time.Date(ay, am, ad, 0, 0, 0, 0, a.Location()))
	bt := b.Sub(time.Date(by, bm, bd, 0, 0, 0, 0, b.Location()))
	todSame := false
	for _, g := range []time.Duration{time.Nanosecond, time.Microsecond, time.Millisecond, time.Second, time.Minute, time.Hour} {
		if at.Truncate(g) == bt {
			todSame = true
		}
	}
	todZero := bt == 0
	return (dateSame && (todSame || todZero)) || (dateZero && todSame)
}

// ---------------------------------------------------------------- values from a seed

type vrng struct{ s uint64 }

func (r *vrng) next() uint64 {
	r.s += 0x9e3779b97f4a7c15
	z := r.s
	z = (z ^ (z >> 30)) * 0xbf58476d1ce4e5b9
	z = (z ^ (z >> 27)) * 0x94d049bb133111eb
	return z ^ (z >> 31)
}

func (r *vrng) intn(n int) int {
	if n <= 1 {
		return 0
	}
	return int(r.next() % uint64(n))
}

type vgen struct {
	r     vrng
	edge  bool
	impls map[string][]reflect.Type
	// params: the value is a parameter set. Which texts a parameter can carry depends on its location, style
	// and the path template around it, none of which a Go type shows: text and array lengths stay in the core
	// domain there (the hand-written world covers delimiters per style); numbers and instants do not.
	params bool
	// small: the call's numbers are 1..5 and its texts 6-10 characters, which the usual bounds in documents
	// admit (half of the calls: those with an even value seed); otherwise numbers are -100..100, texts 1-8.
	small bool
	// op: the operation's name, the hint for values that have no member name of their own
	op string
	// edgeText: edge calls come in two kinds. "Wide" ones (value seed bit 1 clear) take numbers from the whole
	// width of their type and instants from years 1 to 9999 but keep text and array lengths in the core domain:
	// everything in them is something the property says must be delivered. The others also use delimiters,
	// quotes, empty text and empty arrays, for which an error is as good as exact delivery.
	edgeText bool
	// literals: the literal segments of the package's path templates. A text parameter sometimes begins with one of
	// them (a user called "megan" next to the route /users/me): which route a request takes and what the parameter
	// holds must not depend on such a coincidence.
	literals []string
}

const alnum = "abcdefghijklmnopqrstuvwxyz0123456789"

var edgeTexts = []string{"a b", "x+y", "p%q", "u/v", "k=v", "q?r#s&t", "é✓ü", "100%", "a  b", "%41", "+", "~_-", "a,b", "a;b", "a.b", "a|b", "x,", ";id=y", "\"q\"", "a\\b", "{j}", "[l]", "<t>", "a:b", "a'b", "日本", "a\tb", ""}

// bracketKeys: member names with brackets, for the maps of parameter objects.
var bracketKeys = []string{"a[0]", "k]", "x[y][z]", "[l]", "a]b[c", "[", "]]"}

func (g *vgen) text() string {
	if g.edgeText && !g.params && g.r.intn(3) == 0 {
		return edgeTexts[g.r.intn(len(edgeTexts))]
	}
	if g.params && len(g.literals) > 0 && !g.small && g.r.intn(6) == 0 {
		lit := g.literals[g.r.intn(len(g.literals))]
		b := make([]byte, 1+g.r.intn(3))
		for i := range b {
			b[i] = alnum[g.r.intn(len(alnum))]
		}
		return lit + string(b)
	}
	n := 1 + g.r.intn(8)
	if g.small {
		n = 6 + g.r.intn(5)
	}
	b := make([]byte, n)
	for i := range b {
		b[i] = alnum[g.r.intn(len(alnum))]
	}
	return string(b)
}

// hinted: texts whose member name says which syntax they must have.
func (g *vgen) hinted(hint string) (string, bool) {
	lh := strings.ToLower(hint)
	if i := strings.LastIndex(lh, "."); i >= 0 && (strings.Contains(lh[i:], "email") || strings.Contains(lh[i:], "hostname")) {
		lh = lh[i:] // the innermost name decides
	}
	if strings.HasSuffix(lh, ".contenttype") {
		// the media type of a body whose declared type is a mask (image/*, */*): with and without parameters
		return []string{"text/plain", "text/plain; charset=iso-8859-1", "image/png", "application/octet-stream", "application/x-sim; v=\"1\"", "image/svg+xml; charset=utf-8", "application/problem+json"}[g.r.intn(7)], true
	}
	switch {
	case strings.Contains(lh, "email"):
		return "u" + strconv.Itoa(g.r.intn(1000)) + "@h" + strconv.Itoa(g.r.intn(100)) + ".test", true
	case strings.Contains(lh, "hostname"):
		h := "h" + strconv.Itoa(g.r.intn(1000)) + ".sim.test"
		if g.r.intn(4) == 0 {
			h += "." // an absolute name
		}
		return h, true
	}
	return "", false
}

func (g *vgen) intIn(bits int, signed bool) int64 {
	if g.edge && g.r.intn(3) == 0 {
		if signed {
			lim := int64(1)<<(bits-1) - 1
			return []int64{lim, -lim - 1, 0, -1, 1}[g.r.intn(5)]
		}
		return 0 // unsigned extremes are made by uintIn
	}
	if g.small {
		return int64(1 + g.r.intn(5))
	}
	v := int64(g.r.intn(201)) - 100
	if !signed && v < 0 {
		v = -v
	}
	return v
}

var nxx = regexp.MustCompile(`[1-5]XX`)

// value makes a value of type t. hint is the name of the field or parameter it is made for.
func (g *vgen) value(t reflect.Type, depth int, hint string) reflect.Value {
	v := reflect.New(t).Elem()
	switch {
	case t == timeType:
		// whole seconds, UTC: representable by every time format up to its own resolution
		tm := time.Date(1971+g.r.intn(80), time.Month(1+g.r.intn(12)), 1+g.r.intn(28), g.r.intn(24), g.r.intn(60), g.r.intn(60), 0, time.UTC)
		if g.edge && g.r.intn(3) == 0 {
			// far instants: every format carries them (years 1 to 9999)
			years := []int{1, 1000, 1677, 1900, 1969, 2262, 2300, 9999}
			if strings.Contains(strings.ToLower(hint), "nano") {
				// a count of nanoseconds in 64 bits reaches from 1678 to 2261: that is the format's range
				years = []int{1700, 1900, 1969, 2200, 2261, 1678}
			}
			tm = time.Date(years[g.r.intn(len(years))], time.Month(1+g.r.intn(12)), 1+g.r.intn(28), g.r.intn(24), g.r.intn(60), g.r.intn(60), 0, time.UTC)
		} else if g.r.intn(3) == 0 {
			// a value that carries a zone other than UTC: the same local date and time of day in that zone (a date or
			// a time of day is the one the value shows in its own zone; a date-time is the instant)
			off := []int{-5 * 3600, 3 * 3600, 9*3600 + 1800, 14 * 3600, -11 * 3600, 5*3600 + 2700}[g.r.intn(6)]
			y, mo, d := tm.Date()
			tm = time.Date(y, mo, d, tm.Hour(), tm.Minute(), tm.Second(), 0, time.FixedZone("", off))
		}
		v.Set(reflect.ValueOf(tm))
		return v
	case t == durationType:
		v.SetInt(int64(time.Duration(1+g.r.intn(100000)) * time.Second))
		return v
	case t == urlType:
		v.Set(reflect.ValueOf(url.URL{Scheme: "http", Host: "h" + strconv.Itoa(g.r.intn(100)) + ".test", Path: "/p" + strconv.Itoa(g.r.intn(1000))}))
		return v
	case t == addrType:
		six := g.r.intn(2) == 0
		lh := strings.ToLower(hint)
		if i4, i6 := strings.LastIndex(lh, "v4"), strings.LastIndex(lh, "v6"); i6 > i4 {
			six = true // the innermost name decides
		} else if i4 > i6 {
			six = false
		}
		if six {
			var b [16]byte
			for i := range b {
				b[i] = byte(g.r.next())
			}
			b[0] = 0x20
			if g.r.intn(4) == 0 {
				// an IPv4-mapped IPv6 address (::ffff:a.b.c.d) is an IPv6 address and not the IPv4 address it maps
				copy(b[:12], []byte{0, 0, 0, 0, 0, 0, 0, 0, 0, 0, 0xff, 0xff})
			}
			v.Set(reflect.ValueOf(netip.AddrFrom16(b)))
		} else {
			v.Set(reflect.ValueOf(netip.AddrFrom4([4]byte{byte(1 + g.r.intn(200)), byte(g.r.next()), byte(g.r.next()), byte(1 + g.r.intn(200))})))
		}
		return v
	case t == macType:
		b := make([]byte, 6)
		for i := range b {
			b[i] = byte(g.r.next())
		}
		v.Set(reflect.ValueOf(net.HardwareAddr(b)))
		return v
	case t == ipType:
		v.Set(reflect.ValueOf(net.IPv4(byte(1+g.r.intn(200)), byte(g.r.next()), byte(g.r.next()), byte(1+g.r.intn(200)))))
		return v
	case t == fileType:
		b := make([]byte, g.r.intn(300))
		for i := range b {
			b[i] = byte(g.r.next())
		}
		v.Set(reflect.ValueOf(ht.MultipartFile{Name: "f" + g.textCore() + ".bin", File: newSimReader(b)}))
		return v
	case isRaw(t):
		raws := []string{`1`, `"s"`, `{"k":1}`, `[1,2]`, `true`, `{"a":{"b":[1,"x",null]}}`, `-2.5`}
		v.SetBytes([]byte(raws[g.r.intn(len(raws))]))
		return v
	}
	switch t.Kind() {
	case reflect.Pointer:
		if depth > 6 || (depth > 0 && g.r.intn(3) == 0) {
			return v // nil
		}
		p := reflect.New(t.Elem())
		p.Elem().Set(g.value(t.Elem(), depth+1, hint))
		return p
	case reflect.Interface:
		if t == readerType {
			b := make([]byte, g.r.intn(400))
			for i := range b {
				b[i] = byte(g.r.next())
			}
			v.Set(reflect.ValueOf(newSimReader(b)))
			return v
		}
		cands := g.impls[t.Name()]
		if len(cands) == 0 {
			return v
		}
		c := cands[g.r.intn(len(cands))]
		cv := g.value(c, 0, hint) // a non-nil pointer to a filled variant
		if cv.Type().Implements(t) {
			v.Set(cv)
		}
		return v
	case reflect.Struct:
		if set, null, ok := optShape(t); ok {
			if set >= 0 {
				if depth > 6 || g.r.intn(4) == 0 {
					return v // unset
				}
				v.Field(set).SetBool(true)
			}
			if null >= 0 && g.r.intn(4) == 0 {
				v.Field(null).SetBool(true)
				return v
			}
			if ft := t.Field(0).Type; ft.Kind() == reflect.Pointer {
				// a set optional holding a nil pointer is not a value of the schema
				p := reflect.New(ft.Elem())
				p.Elem().Set(g.value(ft.Elem(), depth+1, hint))
				v.Field(0).Set(p)
				return v
			}
			v.Field(0).Set(g.value(t.Field(0).Type, depth+1, hint))
			return v
		}
		if sumShape(t) {
			var variants []int
			p := reflect.New(t)
			for i := 1; i < t.NumField(); i++ {
				if m := p.MethodByName("Set" + t.Field(i).Name); m.IsValid() && m.Type().NumIn() == 1 {
					variants = append(variants, i)
				}
			}
			if len(variants) == 0 {
				return v
			}
			i := variants[g.r.intn(len(variants))]
			p.MethodByName("Set" + t.Field(i).Name).Call([]reflect.Value{g.value(t.Field(i).Type, depth+1, t.Field(i).Name)})
			return p.Elem()
		}
		for i := 0; i < t.NumField(); i++ {
			f := t.Field(i)
			if !f.IsExported() {
				continue
			}
			v.Field(i).Set(g.value(f.Type, depth+1, hint+"."+f.Name))
		}
		return v
	case reflect.Slice:
		if t.Elem().Kind() == reflect.Uint8 {
			b := make([]byte, 1+g.r.intn(12))
			for i := range b {
				b[i] = byte(g.r.next())
			}
			v.SetBytes(b)
			return v
		}
		if depth > 6 {
			// where the depth bound ends the descent: an empty array (a nil slice is not a value of an array schema:
			// it would be written as null)
			return reflect.MakeSlice(t, 0, 0)
		}
		n := 1 + g.r.intn(3)
		if g.edgeText && !g.params && g.r.intn(4) == 0 {
			n = 0
		}
		s := reflect.MakeSlice(t, n, n)
		for i := 0; i < n; i++ {
			s.Index(i).Set(g.value(t.Elem(), depth+1, hint))
		}
		return s
	case reflect.Array:
		for i := 0; i < v.Len(); i++ {
			v.Index(i).Set(g.value(t.Elem(), depth+1, hint))
		}
		return v
	case reflect.Map:
		if depth > 6 {
			return v
		}
		n := g.r.intn(4)
		m := reflect.MakeMapWithSize(t, n)
		for i := 0; i < n; i++ {
			k := g.value(t.Key(), depth+1, "key")
			if g.params && g.edgeText && k.Kind() == reflect.String && g.r.intn(3) == 0 {
				// a member name of a parameter object that contains the brackets its style (deepObject) writes
				// around member names: delivered whole, or refused - never dropped
				k.SetString(bracketKeys[g.r.intn(len(bracketKeys))])
			}
			m.SetMapIndex(k, g.value(t.Elem(), depth+1, hint))
		}
		return m
	case reflect.String:
		if m := v.MethodByName("AllValues"); m.IsValid() && m.Type().NumIn() == 0 && m.Type().NumOut() == 1 {
			all := m.Call(nil)[0]
			if all.Kind() == reflect.Slice && all.Len() > 0 {
				return all.Index(g.r.intn(all.Len()))
			}
		}
		if h, ok := g.hinted(hint); ok && !(g.edgeText && !g.params) {
			v.SetString(h)
			return v
		}
		v.SetString(g.text())
		return v
	case reflect.Bool:
		v.SetBool(g.r.intn(2) == 0)
		return v
	case reflect.Int, reflect.Int8, reflect.Int16, reflect.Int32, reflect.Int64:
		if m := v.MethodByName("AllValues"); m.IsValid() && m.Type().NumIn() == 0 && m.Type().NumOut() == 1 {
			all := m.Call(nil)[0]
			if all.Kind() == reflect.Slice && all.Len() > 0 {
				return all.Index(g.r.intn(all.Len()))
			}
		}
		v.SetInt(g.intIn(t.Bits(), true))
		return v
	case reflect.Uint, reflect.Uint8, reflect.Uint16, reflect.Uint32, reflect.Uint64:
		if g.edge && g.r.intn(3) == 0 {
			v.SetUint([]uint64{0, 1, 1<<uint(t.Bits()) - 1}[g.r.intn(3)])
			if t.Bits() == 64 && v.Uint() == 0 && g.r.intn(2) == 0 {
				v.SetUint(^uint64(0))
			}
			return v
		}
		v.SetUint(uint64(g.intIn(t.Bits(), false)))
		return v
	case reflect.Float32:
		if g.edge && g.r.intn(3) == 0 {
			v.SetFloat([]float64{3.4028234663852886e38, -3.4028234663852886e38, 1.401298464324817e-45, 0, 1e-7, 16777217}[g.r.intn(6)])
			if f := math.Float32frombits(uint32(g.r.next())); g.r.intn(2) == 0 && !math.IsNaN(float64(f)) && !math.IsInf(float64(f), 0) {
				v.SetFloat(float64(f)) // any finite number of the width
			}
			return v
		}
		if g.small {
			v.SetFloat(float64(1+g.r.intn(4)) + 0.5)
			return v
		}
		v.SetFloat(float64(g.r.intn(8001)-4000)/8 + 0.0625)
		return v
	case reflect.Float64:
		if g.edge && g.r.intn(3) == 0 {
			v.SetFloat([]float64{1.7976931348623157e308, -1.7976931348623157e308, 5e-324, 0, 1e-7, 1e21, 9007199254740993, 0.1}[g.r.intn(8)])
			if f := math.Float64frombits(g.r.next()); g.r.intn(2) == 0 && !math.IsNaN(f) && !math.IsInf(f, 0) {
				v.SetFloat(f)
			}
			return v
		}
		if g.small {
			v.SetFloat(float64(1+g.r.intn(4)) + 0.5)
			return v
		}
		v.SetFloat(float64(g.r.intn(2000001)-1000000)/64 + 1.0/128)
		return v
	}
	return v
}

func (g *vgen) textCore() string {
	e := g.edgeText
	g.edgeText = false
	s := g.text()
	g.edgeText = e
	return s
}

// top makes an argument or a result: like value, but a pointer at the top is never nil.
func (g *vgen) top(t reflect.Type) reflect.Value {
	if t.Kind() == reflect.Pointer {
		p := reflect.New(t.Elem())
		p.Elem().Set(g.value(t.Elem(), 1, g.op))
		return p
	}
	return g.value(t, 0, g.op)
}

// response makes what the handler returns: a variant of the result sum (never an informational one), with
// a status code that belongs to the variant and to no other variant of the operation.
func (g *vgen) response(t reflect.Type) (reflect.Value, bool) {
	names := []string{t.Name()}
	target := t
	exactSibling := false // some variant of the operation is one for an exact code (it has no StatusCode member)
	if t.Kind() == reflect.Interface && t != readerType {
		var cands []reflect.Type
		names = nil
		for _, c := range g.impls[t.Name()] {
			n := c.String()
			names = append(names, n)
			ct := c
			for ct.Kind() == reflect.Pointer {
				ct = ct.Elem()
			}
			if ct.Kind() != reflect.Struct {
				exactSibling = true
			} else if _, has := ct.FieldByName("StatusCode"); !has {
				exactSibling = true
			}
			if strings.Contains(n, "1XX") {
				continue
			}
			cands = append(cands, c)
		}
		if len(cands) == 0 {
			return reflect.Value{}, false
		}
		target = cands[g.r.intn(len(cands))]
	}
	v := g.top(target)
	// status code of pattern and default variants
	sv := v
	for sv.Kind() == reflect.Pointer && !sv.IsNil() {
		sv = sv.Elem()
	}
	if sv.Kind() == reflect.Struct {
		if f := sv.FieldByName("StatusCode"); f.IsValid() && f.Kind() == reflect.Int && f.CanSet() {
			own := target.String()
			if m := nxx.FindString(own); m != "" {
				if m[0] == '1' {
					return reflect.Value{}, false
				}
				f.SetInt(int64(m[0]-'0')*100 + 99)
				if m[0] == '2' && g.r.intn(3) == 0 {
					// left unset: the server answers 200, and that is what arrives - unless a sibling variant may be
					// the one for 200 itself
					if !exactSibling {
						f.SetInt(0)
					}
				}
			} else {
				taken := map[byte]bool{}
				for _, n := range names {
					if m := nxx.FindString(n); m != "" {
						taken[m[0]] = true
					}
				}
				code := int64(0)
				for _, c := range []byte{'5', '4', '3', '2'} {
					if !taken[c] {
						code = int64(c-'0')*100 + 99
						break
					}
				}
				if code == 0 {
					return reflect.Value{}, false
				}
				f.SetInt(code)
				if !taken['2'] && !exactSibling && g.r.intn(3) == 0 {
					f.SetInt(0) // a default variant left unset: 200, which no other variant claims
				}
			}
		}
	}
	if t.Kind() == reflect.Interface && !v.Type().Implements(t) {
		return reflect.Value{}, false
	}
	return v, true
}

// ---------------------------------------------------------------- records

// TypedSide is what one delivery of a typed call produced in the handler.
type TypedSide struct {
	Reached  bool   `json:"reached"`
	Op       string `json:"op,omitempty"`
	SawSum   string `json:"saw_sum,omitempty"`
	RespSum  string `json:"resp_sum,omitempty"`
	RespType string `json:"resp_type,omitempty"`
	RespSum2 bool   `json:"resp_has_sum,omitempty"` // the returned value contains a sum type
	recv     []*Node
	again    []*Node
	mwBody   *Node
	mwSeen   bool
	mw2Op    string
	resp     *Node
	creds    []*Node // what the security handler was shown, in order
}

// TypedRec is the typed part of a call record.
type TypedRec struct {
	Op        string       `json:"op"`
	SentSum   string       `json:"sent_sum"`
	Sides     []*TypedSide `json:"sides"`
	GotValue  bool         `json:"got_value"`
	ErrValue  bool         `json:"err_value,omitempty"` // the caller holds the server's own error answer as a value
	GotSum    string       `json:"got_sum,omitempty"`
	GotType   string       `json:"got_type,omitempty"`
	SentSum2  bool         `json:"sent_has_sum,omitempty"` // the supplied values contain a sum type
	Harness   string       `json:"harness,omitempty"`      // trouble of the harness itself (never a violation)
	Problems  []string     `json:"problems,omitempty"`
	Defaults  int          `json:"defaults"`
	ReqExact  bool         `json:"req_exact"`  // some delivery reached the handler and every delivery that did received exactly what was supplied
	RespExact bool         `json:"resp_exact"` // the caller got exactly what the answering handler returned

	OptSel    int          `json:"opt_sel,omitempty"`  // 16 + the per-call request options the call brought (bit 0 client, 1 server URL, 2 edit request, 3 edit response)

	sent  []*Node
	sides [3]*TypedSide
	got   *Node

	optHasClient, optHasEditReq, optHasEditResp          bool
	optOwnDo, optEditReq, optEditResp, optForeign, optLate atomic.Int32
}

var defaultsSeen = map[string]string{} // package + type.member -> default observed; used between runs only (seal)

const respSalt = 0x7e57ab1e

func typedSide(ctx context.Context) (*srvInfo, *TypedSide) {
	si := srvFrom(ctx)
	if si == nil || si.Call == nil || si.Call.Rec == nil || si.Call.Rec.T == nil {
		return nil, nil
	}
	i := si.Idx
	tr := si.Call.Rec.T
	if tr.sides[i] == nil {
		tr.sides[i] = &TypedSide{}
	}
	return si, tr.sides[i]
}

// typedHandler is the one callback behind every Handler method of a corpus package.
//
// shared: the handler answers from a small set of response objects it made once (one per operation and class of
// call) and hands the same object to every request of that class - what an application with canned answers does. The
// second result compares those objects, after everything has finished, with what they were when they were made.
func typedHandler(impls map[string][]reflect.Type, shared bool) (func(ctx context.Context, op string, args []any, res any) error, func() string) {
	type canned struct {
		v    reflect.Value
		was  *Node
		name string
	}
	var mu sync.Mutex
	cache := map[string]*canned{}
	check := func() string {
		mu.Lock()
		defer mu.Unlock()
		var keys []string
		for k := range cache {
			keys = append(keys, k)
		}
		sort.Strings(keys)
		for _, k := range keys {
			c := cache[k]
			// (no relaxation here: the object is the application's, not a value that travelled)
			if now := snap(c.v, false, 0); now.String() != c.was.String() {
				return "the response object the handler keeps for " + k + " was " + clipS(c.was.String(), 300) + " and is now " + clipS(now.String(), 300)
			}
		}
		return ""
	}
	return func(ctx context.Context, op string, args []any, res any) error {
		si, ts := typedSide(ctx)
		if si == nil {
			return errors.New("sim: handler called outside a simulated call")
		}
		si.Side.HandlerCalls++
		si.Side.ServerSaw = op
		ts.Reached, ts.Op = true, op
		si.St.MaybeYield()
		if si.Call.Rec.Call.V%3 == 0 {
			useLabeler(ctx, si, "h")
		}
		for _, a := range args {
			ts.recv = append(ts.recv, snap(reflect.ValueOf(a), true, 0))
		}
		si.St.MaybeYield()
		for _, a := range args {
			ts.again = append(ts.again, snap(reflect.ValueOf(a), false, 0))
		}
		if res == nil {
			return nil
		}
		c := si.Call.Rec.Call
		g := &vgen{r: vrng{s: c.V ^ respSalt}, edge: c.Edge, impls: impls, small: c.V&1 == 0, op: op, edgeText: c.Edge && c.V&2 != 0}
		rv := reflect.ValueOf(res).Elem()
		var v reflect.Value
		var ok bool
		if shared {
			// the answer depends on the operation and on the class of the call only (so that it is the same alone and
			// among others), and every request of the class gets the same object
			key := fmt.Sprintf("%s/%d", op, c.V%3)
			func() {
				mu.Lock()
				defer mu.Unlock()
				cn := cache[key]
				if cn == nil {
					h := fnv.New64a()
					h.Write([]byte(key))
					g = &vgen{r: vrng{s: h.Sum64() ^ respSalt}, impls: impls, small: h.Sum64()&1 == 0, op: op}
					if v, ok = g.response(rv.Type()); ok && !holdsReader(snap(v, false, 0)) {
						cn = &canned{v: v, was: snap(v, false, 0), name: key}
						cache[key] = cn
					}
				} else {
					v, ok = cn.v, true
				}
			}()
		} else {
			v, ok = g.response(rv.Type())
		}
		if !ok {
			return errors.New("sim: no response variant can be made")
		}
		rv.Set(v)
		ts.resp = snap(v, false, 0)
		ts.RespSum2 = hasSum(ts.resp)
		if v.Kind() == reflect.Interface && !v.IsNil() {
			ts.RespType = v.Elem().Type().String()
		} else {
			ts.RespType = v.Type().String()
		}
		si.St.MaybeYield()
		return nil
	}, check
}

// holdsReader: the tree contains a stream (a stream can be read once: such an answer cannot be shared).
func holdsReader(n *Node) bool {
	if n == nil {
		return false
	}
	if n.T == "reader" || n.T == "file" {
		return true
	}
	for _, c := range n.C {
		if holdsReader(c) {
			return true
		}
	}
	return false
}

// typedNewError builds the common error response the way ogen's default error handler picks its status.
func typedNewError(ctx context.Context, err error, res any) {
	rv := reflect.ValueOf(res).Elem()
	t := rv.Type()
	var sv reflect.Value
	if t.Kind() == reflect.Pointer {
		p := reflect.New(t.Elem())
		rv.Set(p)
		sv = p.Elem()
	} else {
		sv = rv
	}
	if sv.Kind() == reflect.Struct {
		if f := sv.FieldByName("StatusCode"); f.IsValid() && f.Kind() == reflect.Int && f.CanSet() {
			code := ogenerrors.ErrorCode(err)
			if si := srvFrom(ctx); si != nil && si.Call != nil && si.Call.Rec != nil {
				if v := si.Call.Rec.Call.V; v%5 == 0 || v%7 == 0 {
					// the application's own mapping for a class of calls: whatever went wrong, "the backend is down"
					code = http.StatusServiceUnavailable
				}
				si.Side.NewErrorStatus = code
			}
			f.SetInt(int64(code))
		}
	}
}

// customNotFound and customMethodNotAllowed are a user's own handlers for unroutable requests: they answer like ogen's
// defaults and tell the harness that they ran.
func customNotFound(w http.ResponseWriter, r *http.Request) {
	if si, _ := r.Context().Value(srvKey{}).(*srvInfo); si != nil {
		si.Side.CustomNotFound++
		si.St.Yield()
		useLabeler(r.Context(), si, "nf")
	}
	w.Header().Set("X-Sim-Custom", "not-found")
	w.WriteHeader(http.StatusNotFound)
	_, _ = w.Write([]byte("custom: no such route\n"))
}

func customMethodNotAllowed(w http.ResponseWriter, r *http.Request, allowed string) {
	if si, _ := r.Context().Value(srvKey{}).(*srvInfo); si != nil {
		si.Side.CustomNotAllow++
		si.St.Yield()
		useLabeler(r.Context(), si, "mna")
	}
	status := http.StatusMethodNotAllowed
	if r.Method == http.MethodOptions {
		status = http.StatusNoContent
	}
	w.Header().Set("Allow", allowed)
	w.Header().Set("X-Sim-Custom", "method-not-allowed")
	w.WriteHeader(status)
}

// typedFill is the client's security source: every text member of a credential names the call it belongs to.
func typedFill(ctx context.Context, p any) {
	v := reflect.ValueOf(p).Elem()
	if v.Kind() != reflect.Struct {
		return
	}
	prefix := "tok-x-x-"
	if ci := infoFrom(ctx); ci != nil {
		prefix = fmt.Sprintf("tok-%d-%d-", ci.Task, ci.Op)
	}
	for i := 0; i < v.NumField(); i++ {
		if f := v.Field(i); f.Kind() == reflect.String && f.CanSet() {
			f.SetString(prefix + strconv.Itoa(i))
		}
	}
}

// typedSecSaw is called by the accept-all security handler with the credential the server extracted.
func typedSecSaw(ctx context.Context, cred any) error {
	si, ts := typedSide(ctx)
	if si == nil {
		return nil
	}
	si.Side.SecurityCalls++
	ts.creds = append(ts.creds, snap(reflect.ValueOf(cred), false, 0))
	si.St.MaybeYield()
	if si.Call.Rec.Call.V%7 == 0 {
		// for a class of calls the application cannot check the credential at all
		si.Side.SecurityRefused = true
		return errors.New("sim: the credential store does not answer")
	}
	return nil
}

// foreignCredential: a text of the form tok-<task>-<op>-<i> that names another call.
func foreignCredential(n *Node, task, op int, out *[]string) {
	if n.T == "str" {
		if s, err := strconv.Unquote(n.V); err == nil && strings.HasPrefix(s, "tok-") && !strings.HasPrefix(s, fmt.Sprintf("tok-%d-%d-", task, op)) {
			*out = append(*out, s)
		}
	}
	for _, c := range n.C {
		foreignCredential(c, task, op, out)
	}
}

func typedMiddleware(req middleware.Request, next middleware.Next) (middleware.Response, error) {
	if si, ts := typedSide(req.Context); si != nil {
		si.Side.MiddlewareOps++
		si.Side.MiddlewareSaw = req.OperationName
		if req.Body != nil {
			ts.mwBody = snap(reflect.ValueOf(req.Body), false, 0)
		}
		ts.mwSeen = true
		si.St.MaybeYield()
	}
	return next(req)
}

// secondMiddleware sits behind the recording one: the chain must hand every request to the operation it
// was dispatched to, whatever other requests are in the chain at the same time.
func secondMiddleware(req middleware.Request, next middleware.Next) (middleware.Response, error) {
	if si, ts := typedSide(req.Context); si != nil {
		ts.mw2Op = req.OperationName
		si.Side.Middleware2Saw = req.OperationName
		si.St.MaybeYield()
	} else if si := srvFrom(req.Context); si != nil {
		si.Side.Middleware2Saw = req.OperationName
		si.St.MaybeYield()
	}
	return next(req)
}

// doTyped performs one typed call.
func doTyped(ctx context.Context, cls *typedClients, impls map[string][]reflect.Type, rec *CallRecord) {
	c := rec.Call
	tr := rec.T
	var m reflect.Value
	first := 1
	var target string
	if name, ok := strings.CutPrefix(c.TOp, "~"); ok {
		// a webhook: the generated WebhookClient sends it to a target URL, where the generated WebhookServer's
		// handler for that webhook listens
		if cls.webhook != nil && cls.webhooks[name] != "" {
			m = reflect.ValueOf(cls.webhook).MethodByName(name)
			target = "http://sim.test/__wh/" + cls.webhooks[name]
			first = 2
		}
	} else {
		m = reflect.ValueOf(cls.api).MethodByName(c.TOp)
		if cls.override != nil && cls.withURL != nil {
			ctx = cls.withURL(ctx, cls.override)
		}
	}
	if !m.IsValid() {
		tr.Harness = "no client method " + c.TOp
		rec.Returned = true
		return
	}
	mt := m.Type()
	g := &vgen{r: vrng{s: c.V}, edge: c.Edge, impls: impls, small: c.V&1 == 0, op: c.TOp, edgeText: c.Edge && c.V&2 != 0, literals: cls.literals}
	in := []reflect.Value{reflect.ValueOf(ctx)}
	if first == 2 {
		in = append(in, reflect.ValueOf(target))
	}
	n := mt.NumIn()
	if mt.IsVariadic() {
		n--
	}
	for i := first; i < n; i++ {
		g.params = strings.HasSuffix(mt.In(i).Name(), "Params")
		v := g.top(mt.In(i))
		if mt.In(i).Kind() == reflect.Interface && v.IsNil() {
			tr.Harness = "no variant of " + mt.In(i).String()
			rec.Returned = true
			return
		}
		in = append(in, v)
		tr.sent = append(tr.sent, snap(v, false, 0))
	}
	tr.SentSum = digest(tr.sent...)
	for _, n := range tr.sent {
		if hasSum(n) {
			tr.SentSum2 = true
		}
	}
	if mt.IsVariadic() && cls.override != nil {
		in = append(in, callOptions(cls, infoFrom(ctx), tr, c.V, first == 2)...)
	}
	out := m.Call(in)
	rec.Returned = true
	optionsRule(tr, out[len(out)-1].IsNil())
	if e := out[len(out)-1]; !e.IsNil() {
		err := e.Interface().(error)
		rec.ClientErr = firstLine(err.Error())
		var sc interface{ GetStatusCode() int }
		if errors.As(err, &sc) {
			rec.Status = sc.GetStatusCode()
		}
		return
	}
	if len(out) == 2 {
		tr.got = snap(out[0], true, 0)
		tr.GotValue = true
		tr.GotSum = digest(tr.got)
		if out[0].Kind() == reflect.Interface && !out[0].IsNil() {
			tr.GotType = out[0].Elem().Type().String()
		} else {
			tr.GotType = out[0].Type().String()
		}
	} else {
		tr.GotValue = true
	}
}

// optionsRule: per-call request options act on the call that brought them, once, in order (edit request, send, edit
// response), and on no other call.
func optionsRule(tr *TypedRec, succeeded bool) {
	if tr.OptSel == 0 {
		return
	}
	add := func(s string) {
		if len(tr.Problems) < 8 {
			tr.Problems = append(tr.Problems, s)
		}
	}
	do, eq, er := tr.optOwnDo.Load(), tr.optEditReq.Load(), tr.optEditResp.Load()
	if n := tr.optForeign.Load(); n != 0 {
		add(fmt.Sprintf("options/a per-call request option was applied to another call's request or response: %d times", n))
	}
	if do > 1 || eq > 1 || er > 1 {
		add(fmt.Sprintf("options/a per-call request option was applied more than once: edit request %d, own client %d, edit response %d", eq, do, er))
	}
	if tr.optLate.Load() != 0 {
		add("options/the request was edited after it had been sent: edit request ran after the call's own client")
	}
	if tr.optHasClient && tr.optHasEditReq && do > 0 && eq == 0 {
		add("options/the request was sent without the call's edit: own client used, edit request never ran")
	}
	if tr.optHasClient && tr.optHasEditResp && er > 0 && do == 0 {
		add("options/a response was edited that the call's own client never fetched: edit response ran, own client unused")
	}
	if succeeded {
		if tr.optHasClient && do != 1 {
			add(fmt.Sprintf("options/the call succeeded without its own client: used %d times", do))
		}
		if tr.optHasEditReq && eq != 1 {
			add(fmt.Sprintf("options/the call succeeded without its request edit: ran %d times", eq))
		}
		if tr.optHasEditResp && er != 1 {
			add(fmt.Sprintf("options/the call succeeded without its response edit: ran %d times", er))
		}
	}
}

// sealTyped compares, after everything has finished.
func (r *CallRecord) sealTyped(pkg string) {
	tr := r.T
	if tr == nil {
		return
	}
	add := func(s string) {
		if len(tr.Problems) < 8 {
			tr.Problems = append(tr.Problems, s)
		}
	}
	defaults := map[string]string{}
	reached, exact := 0, 0
	answering := -1
	for i, ts := range tr.sides {
		if ts == nil {
			continue
		}
		tr.Sides = append(tr.Sides, ts)
		for _, c := range ts.creds {
			var foreign []string
			foreignCredential(c, r.Task, r.Op, &foreign)
			for _, f := range foreign {
				add(fmt.Sprintf("request/the security handler was shown another call's credential (delivery %d): %s", i, f))
			}
		}
		if !ts.Reached {
			continue
		}
		reached++
		if i < 2 {
			answering = i
		}
		ts.SawSum = digest(ts.recv...)
		if ts.resp != nil {
			ts.RespSum = digest(ts.resp)
		}
		if f := r.Call.Fault; f != nil && f.Kind == "mangle" && r.fired.Load() && len(ts.recv) == len(tr.sent) {
			for _, p := range faithfulReading(f, tr.sent, ts.recv) {
				add(fmt.Sprintf("request/what the handler holds is not a reading of the text on the wire (delivery %d): %s", i, p))
			}
		}
		var ds []string
		if len(ts.recv) != len(tr.sent) {
			ds = append(ds, fmt.Sprintf("%d arguments supplied, %d arrived", len(tr.sent), len(ts.recv)))
		} else {
			for k := range tr.sent {
				diff(fmt.Sprintf("arg%d", k), tr.sent[k], ts.recv[k], defaults, &ds)
			}
		}
		if len(ds) == 0 {
			exact++
		}
		for _, d := range ds {
			if strings.HasPrefix(d, streamErr) {
				add(fmt.Sprintf("request/stream ended with an error (delivery %d): %s", i, d[len(streamErr):]))
				continue
			}
			if strings.HasPrefix(d, mapDropped) {
				add(fmt.Sprintf("request/map members did not arrive (delivery %d): %s", i, d[len(mapDropped):]))
				continue
			}
			if strings.HasPrefix(d, numULP) {
				add(fmt.Sprintf("request/number arrived one unit in the last place away (delivery %d): %s", i, d[len(numULP):]))
				continue
			}
			if strings.HasPrefix(d, ctParams) {
				add(fmt.Sprintf("request/media type arrived without its parameters (delivery %d): %s", i, d[len(ctParams):]))
				continue
			}
			if strings.HasPrefix(d, emptyList) {
				add(fmt.Sprintf("request/empty list arrived as one empty text (delivery %d): %s", i, d[len(emptyList):]))
				continue
			}
			add(fmt.Sprintf("request/handler received a different value (delivery %d): %s", i, d))
		}
		var ss []string
		for k := range ts.recv {
			if k < len(ts.again) {
				diff(fmt.Sprintf("arg%d", k), ts.recv[k], ts.again[k], nil, &ss)
			}
		}
		for _, d := range ss {
			add(fmt.Sprintf("request/value changed while the handler held it (delivery %d): %s", i, d))
		}
		if ts.mwSeen && ts.mwBody != nil {
			found := false
			for _, a := range ts.recv {
				var ms []string
				diff("body", ts.mwBody, a, nil, &ms)
				if len(ms) == 0 {
					found = true
				}
			}
			if !found {
				add(fmt.Sprintf("request/middleware saw a body the handler did not get (delivery %d): %s", i, clipS(ts.mwBody.String(), 300)))
			}
		}
		if !ts.mwSeen {
			add(fmt.Sprintf("request/handler ran without the middleware (delivery %d)", i))
		}
		if ts.mw2Op != "" && ts.mw2Op != r.Sides0Op(i) {
			add(fmt.Sprintf("request/second middleware saw operation %s, first saw %s (delivery %d)", ts.mw2Op, r.Sides0Op(i), i))
		}
		if ts.Op != strings.TrimPrefix(r.Call.TOp, "~") {
			add(fmt.Sprintf("request/operation %s was called, handler %s ran (delivery %d)", r.Call.TOp, ts.Op, i))
		}
	}
	tr.ReqExact = reached > 0 && exact == reached
	if tr.GotValue && tr.got != nil {
		if answering < 0 || tr.sides[answering].resp == nil {
			// no handler returned anything: what the caller holds is the server's own error answer, decoded as
			// the operation's default or pattern variant
			st := 0
			for _, sd := range r.sides {
				if sd != nil && sd.Delivered {
					st = sd.Status
				}
			}
			if st >= 400 {
				tr.GotValue, tr.ErrValue = false, true
				r.Status = st
			} else {
				add("response/the caller got a value although no handler returned one: " + clipS(tr.got.String(), 300))
			}
		} else {
			var ds []string
			diff("result", tr.sides[answering].resp, tr.got, defaults, &ds)
			for _, d := range ds {
				if strings.HasPrefix(d, streamErr) {
					add("response/stream ended with an error: " + d[len(streamErr):])
					continue
				}
				if strings.HasPrefix(d, mapDropped) {
					add("response/map members did not arrive: " + d[len(mapDropped):])
					continue
				}
				if strings.HasPrefix(d, numULP) {
					add("response/number arrived one unit in the last place away: " + d[len(numULP):])
					continue
				}
				if strings.HasPrefix(d, ctParams) {
					add("response/media type arrived without its parameters: " + d[len(ctParams):])
					continue
				}
				if strings.HasPrefix(d, emptyList) {
					add("response/empty list arrived as one empty text: " + d[len(emptyList):])
					continue
				}
				add("response/caller received a different value: " + d)
			}
			tr.RespExact = len(ds) == 0
		}
	} else if tr.GotValue {
		tr.RespExact = answering >= 0 // operations without a result value
	}
	tr.Defaults = len(defaults)
	var keys []string
	for k := range defaults {
		keys = append(keys, k)
	}
	sort.Strings(keys)
	for _, k := range keys {
		full := pkg + " " + k
		if old, ok := defaultsSeen[full]; ok && old != defaults[k] {
			add(fmt.Sprintf("default/%s arrived as %s where nothing was supplied, earlier as %s", k, clipS(defaults[k], 200), clipS(old, 200)))
		} else {
			defaultsSeen[full] = defaults[k]
		}
	}
}

// Sides0Op is the operation the first middleware of delivery i saw.
func (r *CallRecord) Sides0Op(i int) string {
	if s := r.sides[i]; s != nil {
		return s.MiddlewareSaw
	}
	return ""
}

// ---------------------------------------------------------------- rewritten pieces: faithful reading

type leafDiff struct {
	path string
	a, b *Node
}

// leafDiffs collects the leaves at which two trees differ (no relaxations: every difference is listed).
func leafDiffs(path string, a, b *Node, out *[]leafDiff) {
	if len(*out) > 16 {
		return
	}
	a, b = mergeExtra(a), mergeExtra(b)
	if a.T == b.T && len(a.C) == len(b.C) && len(a.C) > 0 && !strings.HasPrefix(a.T, "map") {
		for i := range a.C {
			name := strconv.Itoa(i)
			if i < len(a.N) {
				name = a.N[i]
			}
			leafDiffs(path+"."+name, a.C[i], b.C[i], out)
		}
		return
	}
	if a.String() != b.String() {
		*out = append(*out, leafDiff{path, a, b})
	}
}

var strictInt = regexp.MustCompile(`^[+-]?[0-9]+$`)

// faithfulReading: an intermediary replaced one piece of the request head by a text, and the handler was reached
// all the same. Every integer and text the handler now holds in place of what was supplied must be a reading of
// that text: an integer is the text (or one of its delimiter-separated pieces) read as a decimal integer, a text
// is contained in it. Other kinds of leaves (numbers, booleans, times: parsers with documented leniencies) and
// pieces that decode to nothing are not judged.
func faithfulReading(f *Fault, sent, recv []*Node) []string {
	var text string
	var err error
	switch {
	case strings.HasPrefix(f.Arg, "query"):
		text, err = url.QueryUnescape(f.Val)
	case strings.HasPrefix(f.Arg, "path"):
		text, err = url.PathUnescape(f.Val)
	case strings.HasPrefix(f.Arg, "header"):
		text = strings.TrimSpace(f.Val)
	default:
		return nil
	}
	if err != nil || strings.TrimSpace(text) == "" || len(text) > 200 {
		return nil
	}
	// (a literal slash in a rewritten path segment makes several segments of it: each may be what a parameter holds)
	pieces := strings.FieldsFunc(text, func(c rune) bool { return c == ',' || c == '|' || c == ';' || c == ' ' || c == '.' || c == '/' })
	pieces = append(pieces, text)
	var ds []leafDiff
	for k := range sent {
		leafDiffs(fmt.Sprintf("arg%d", k), sent[k], recv[k], &ds)
	}
	var out []string
	for _, d := range ds {
		switch d.b.T {
		case "int":
			ok := false
			for _, p := range pieces {
				if strictInt.MatchString(p) {
					x, okx := new(big.Int).SetString(strings.TrimPrefix(p, "+"), 10)
					y, oky := new(big.Int).SetString(d.b.V, 10)
					if okx && oky && x.Cmp(y) == 0 {
						ok = true
					}
				}
			}
			if !ok && d.a.T != "unset" {
				out = append(out, fmt.Sprintf("%s: %s rewritten to %q arrived as integer %s", d.path, f.Arg, text, d.b.V))
			}
		case "str":
			got, uerr := strconv.Unquote(d.b.V)
			if uerr == nil && got != "" && !strings.Contains(text, got) && d.a.T != "unset" {
				out = append(out, fmt.Sprintf("%s: %s rewritten to %q arrived as text %s", d.path, f.Arg, text, d.b.V))
			}
		}
	}
	return out
}
