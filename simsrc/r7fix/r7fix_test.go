package r7fix

import (
	"crypto/sha256"
	"encoding/hex"
	"encoding/json"
	"fmt"
	"os"
	"sort"
	"strconv"
	"strings"
	"sync"
	"testing"
	"testing/synctest"
	"time"

	"github.com/ogen-go/ogen/simrt"
)

type result struct {
	Seed       uint64 `json:"seed"`
	WrongPair  int    `json:"wrong_value_from_split_cache"`
	WrongPair2 int    `json:"wrong_value_from_pair_cache"`
	N          int    `json:"n"`
	Split      int    `json:"split"`
	Hits       int64  `json:"hits"`
	Ready      int32  `json:"ready"`
	PerSum     int64  `json:"per_sum"`
	Want       int    `json:"want"`
	Points     int64  `json:"points"`
	Yields     int64  `json:"yields"`
	Held       int64  `json:"held"`
	Sched      string `json:"sched"`
}

// TestSim runs the seeds in VERIF_R7_SEEDS (comma separated) and prints one JSON line per seed.
func TestSim(t *testing.T) {
	var seeds []uint64
	for _, s := range strings.Split(os.Getenv("VERIF_R7_SEEDS"), ",") {
		if v, err := strconv.ParseUint(strings.TrimSpace(s), 10, 64); err == nil {
			seeds = append(seeds, v)
		}
	}
	out, err := os.Create(os.Getenv("VERIF_R7_OUT"))
	if err != nil {
		t.Fatal(err)
	}
	defer out.Close()
	for _, seed := range seeds {
		res := result{Seed: seed}
		done := make(chan struct{})
		go func() {
			select {
			case <-done:
			case <-time.After(60 * time.Second):
				fmt.Fprintf(os.Stderr, "WATCHDOG r7fix seed %d stalled\n", seed)
				os.Exit(3)
			}
		}()
		synctest.Test(t, func(t *testing.T) {
			simrt.Install(&simrt.Config{Seed: seed, Sched: true, YieldP: 1, MaxDelay: 1 + int(seed%5), Trace: true})
			const tasks, rounds = 4, 6
			var (
				cache Cache
				pair  PairCache
				ctr   Counter
				wg    sync.WaitGroup
				wrong [tasks][2]int
			)
			compute := func(k string) string { return "v:" + k }
			for ti := 0; ti < tasks; ti++ {
				st := simrt.NewStream(fmt.Sprintf("task%d", ti))
				wg.Add(1)
				go func(ti int) {
					defer wg.Done()
					defer simrt.Bind(st)()
					k := fmt.Sprintf("k%d", ti%2)
					for i := 0; i < rounds; i++ {
						st.Yield()
						if cache.Get(k, compute) != "v:"+k {
							wrong[ti][0]++
						}
						if pair.Get(k, compute) != "v:"+k {
							wrong[ti][1]++
						}
						ctr.Inc(k)
						ctr.IncDeferred()
						ctr.SplitInc()
					}
				}(ti)
			}
			wg.Wait()
			for _, w := range wrong {
				res.WrongPair += w[0]
				res.WrongPair2 += w[1]
			}
			res.N, res.Split, res.Hits, res.Ready = ctr.Totals()
			res.PerSum = ctr.Per("k0") + ctr.Per("k1")
			res.Want = tasks * rounds
			res.Points, res.Yields, res.Held = simrt.SyncPoints.Load(), simrt.SyncYields.Load(), simrt.SyncHeld.Load()
			type ev struct {
				at int64
				s  string
			}
			var evs []ev
			for _, st := range simrt.Streams() {
				for _, w := range st.Wakes {
					evs = append(evs, ev{w, st.Name})
				}
			}
			sort.Slice(evs, func(i, j int) bool { return evs[i].at < evs[j].at })
			h := sha256.New()
			for _, e := range evs {
				fmt.Fprintf(h, "%d:%s;", e.at, e.s)
			}
			res.Sched = hex.EncodeToString(h.Sum(nil)[:8])
			simrt.Install(nil)
		})
		close(done)
		b, _ := json.Marshal(res)
		fmt.Fprintln(out, string(b))
	}
}
