// Package r7fix is the fixture of the self-test for rule R7 (DESIGN.md 10.11): code that synchronises correctly
// operation by operation and is still wrong, or right, as a whole. The self-test rewrites this file with R7, runs
// seeded task sets over it inside a bubble and demands: the wrong pieces are caught for some seed, the right
// pieces never are, no run stalls, and a seed is one outcome at every GOMAXPROCS, plain or race.
package r7fix

import (
	"sync"
	"sync/atomic"
)

// Cache is a one-entry cache whose key and value are published separately: a reader may pair its own key with
// somebody else's value.
type Cache struct {
	key atomic.Pointer[string]
	val atomic.Pointer[string]
}

func (c *Cache) Get(k string, compute func(string) string) string {
	if h := c.key.Load(); h != nil && *h == k {
		return *c.val.Load()
	}
	v := compute(k)
	c.val.Store(&v)
	c.key.Store(&k)
	return v
}

// PairCache is the correct version: key and value travel in one pointer.
type PairCache struct{ p atomic.Pointer[[2]string] }

func (c *PairCache) Get(k string, compute func(string) string) string {
	if h := c.p.Load(); h != nil && h[0] == k {
		return h[1]
	}
	v := compute(k)
	c.p.Store(&[2]string{k, v})
	return v
}

type Counter struct {
	mu    sync.Mutex
	rw    sync.RWMutex
	n     int
	split int
	limit int // guarded by rw
	hits  atomic.Int64
	per   sync.Map
	once  sync.Once
	ready int32
}

// Inc is correct: the count is read and written inside one critical section; the atomic inside it is a point at
// which the task must not be parked (others would wait for the mutex, which is not a durable block).
func (c *Counter) Inc(k string) int {
	c.once.Do(func() { atomic.StoreInt32(&c.ready, 1) })
	c.mu.Lock()
	c.n++
	c.hits.Add(1)
	n := c.n
	c.mu.Unlock()
	v, _ := c.per.LoadOrStore(k, new(atomic.Int64))
	v.(*atomic.Int64).Add(1)
	return n
}

// IncDeferred is correct, with the deferred form of release and a read lock around a read.
func (c *Counter) IncDeferred() (n int) {
	c.rw.RLock()
	_ = c.limit
	c.rw.RUnlock()
	c.mu.Lock()
	defer c.mu.Unlock()
	c.n++
	return c.n
}

// SplitInc is wrong: read and write are two critical sections, an update can be lost in between.
func (c *Counter) SplitInc() {
	c.mu.Lock()
	n := c.split
	c.mu.Unlock()
	c.mu.Lock()
	c.split = n + 1
	c.mu.Unlock()
}

func (c *Counter) Totals() (n, split int, hits int64, ready int32) {
	c.mu.Lock()
	defer c.mu.Unlock()
	return c.n, c.split, c.hits.Load(), atomic.LoadInt32(&c.ready)
}

func (c *Counter) Per(k string) int64 {
	v, ok := c.per.Load(k)
	if !ok {
		return 0
	}
	return v.(*atomic.Int64).Load()
}
