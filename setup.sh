#!/bin/sh
# Run once after a fresh restore, offline: builds the driver from files on disk only and warms the build caches.
set -e
cd "$(dirname "$0")"
export GOFLAGS=-mod=mod GOPROXY=off GOSUMDB=off GOTOOLCHAIN=local
mkdir -p bin evidence replays
go build -o bin/check ./cmd/check
echo "setup ok"
