// Command check is the single driver of the verification framework (DESIGN.md 3.10a):
//
//	check <id> quick|thorough
//	check --replay <file>
//	check selftest
//
// Exit 0 = property held on everything explored; 1 = violation (VIOLATION line); 2 = tool trouble.
package main

import (
	"fmt"
	"os"
	"runtime"
	"strconv"
	"time"

	"verif/internal/build"
	"verif/internal/c10"
	"verif/internal/c14"
	"verif/internal/c20"
	"verif/internal/core"
	"verif/internal/evid"
	"verif/internal/selftest"
	"verif/internal/simbuild"
	"verif/internal/xch"
)

var checks = map[string]core.CheckFunc{
	"C10": c10.Run,
	"C14": c14.Run,
	"C01": xch.Run("C01"),
	"C15": xch.Run("C15"),
	"C19": xch.Run("C19"),
	"C20": c20.Run,
}

// instrument is a development aid: instruments a scratch copy, builds it, prints the site table.
func instrument() int {
	defer build.RunCleanups()
	s, err := build.NewScratch("instr")
	if err != nil {
		fmt.Fprintln(os.Stderr, err)
		return 2
	}
	if err := s.CopyRepo("/examples", "/internal/integration"); err != nil {
		fmt.Fprintln(os.Stderr, err)
		return 2
	}
	st, err := simbuild.InstrumentOgen(s)
	if err != nil {
		fmt.Fprintln(os.Stderr, err)
		return 2
	}
	for _, x := range st.Sites {
		fmt.Println("site", x.ID, x.Note)
	}
	for _, x := range st.Uncontrolled {
		fmt.Println("UNCONTROLLED", x.ID, x.Note)
	}
	fmt.Println(st.PerRule, "packages", st.Packages)
	for _, tool := range []build.GoTool{build.GoDefault, build.GoSim} {
		if err := s.Go(tool, s.Src, "build", "./..."); err != nil {
			fmt.Fprintln(os.Stderr, err)
			return 2
		}
		if err := s.Go(tool, s.Src, "vet", "./gen/...", "./openapi/...", "./jsonschema/...", "./simrt/..."); err != nil {
			fmt.Fprintln(os.Stderr, err)
			return 2
		}
	}
	fmt.Println("instrumented tree builds and vets with both toolchains")
	return 0
}

func usage() {
	fmt.Fprintln(os.Stderr, "usage: check <id> quick|thorough | check --replay <file> | check selftest")
	os.Exit(2)
}

func main() {
	if len(os.Args) < 2 {
		usage()
	}
	c := &core.Ctx{Start: time.Now(), Jobs: runtime.NumCPU()}
	if v := os.Getenv("VERIF_JOBS"); v != "" {
		if n, err := strconv.Atoi(v); err == nil && n > 0 {
			c.Jobs = n
		}
	}
	switch os.Args[1] {
	case "selftest":
		seed := int64(1)
		if v := os.Getenv("VERIF_SEED"); v != "" {
			seed, _ = strconv.ParseInt(v, 0, 64)
		}
		os.Exit(selftest.Run(seed, c.Jobs))
	case "assemble":
		// development aid: writes assembled specs to a directory
		n, _ := strconv.Atoi(os.Args[3])
		_ = os.MkdirAll(os.Args[2], 0o755)
		from := 0
		if len(os.Args) > 4 {
			from, _ = strconv.Atoi(os.Args[4]) // pool index to start at
		}
		for i := from; i < from+n; i++ {
			_ = os.WriteFile(fmt.Sprintf("%s/asm%d.yml", os.Args[2], i), []byte(c10.AssembleIndex(i)), 0o644)
		}
		os.Exit(0)
	case "matrix":
		// development aid: writes the feature-matrix documents of the typed exchange to a directory
		for _, f := range xch.WriteMatrix(os.Args[2]) {
			fmt.Println(f)
		}
		os.Exit(0)
	case "instrument":
		os.Exit(instrument())
	case "xbuild":
		e, err := xch.NewEngine("xbuild", len(os.Args) > 2)
		if err != nil {
			fmt.Fprintln(os.Stderr, err)
			build.RunCleanups()
			os.Exit(2)
		}
		fmt.Println("built", e.Plain, e.Race, e.GenStats.PerRule)
		build.RunCleanups()
		os.Exit(0)
	case "--replay":
		if len(os.Args) != 3 {
			usage()
		}
		r, err := evid.ReadReplay(os.Args[2])
		if err != nil {
			fmt.Fprintln(os.Stderr, "replay:", err)
			os.Exit(2)
		}
		c.ID, c.Tier, c.Seed, c.Replay = r.Property, r.Tier, r.Seed, r
	default:
		if len(os.Args) != 3 {
			usage()
		}
		c.ID, c.Tier = os.Args[1], os.Args[2]
		if t := os.Getenv("VERIF_TIER"); t == "quick" || t == "thorough" {
			c.Tier = t
		}
		if c.Tier != "quick" && c.Tier != "thorough" {
			usage()
		}
		c.Seed = 1
		if v := os.Getenv("VERIF_SEED"); v != "" {
			n, err := strconv.ParseInt(v, 0, 64)
			if err != nil {
				fmt.Fprintln(os.Stderr, "bad VERIF_SEED:", err)
				os.Exit(2)
			}
			c.Seed = n
		}
	}
	if v := os.Getenv("VERIF_BUDGET_S"); v != "" {
		if n, err := strconv.Atoi(v); err == nil && n > 0 {
			c.Budget = time.Duration(n) * time.Second
		}
	}
	f, ok := checks[c.ID]
	if !ok {
		fmt.Fprintf(os.Stderr, "unknown check %q\n", c.ID)
		os.Exit(2)
	}
	fmt.Printf("check %s tier=%s seed=%d\n", c.ID, c.Tier, c.Seed)
	o, err := f(c)
	os.Exit(core.Finish(c, o, err))
}
