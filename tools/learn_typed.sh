#!/bin/bash
# learn_typed.sh [seeds...]: rebuilds worlds/tcorp/deliverable.json (which corpus operations and response variants admit
# every value the typed corpus exchange must see delivered) by observation on the tree in /repo. Development aid, never run
# by a check. Each seed is one `./check C01 thorough` at half the thorough budget with VERIF_TYPED_LEARN set (about 8 minutes
# on an idle 16-core box); an operation is listed only if it was never refused in any of the runs (tools/merge_learn.py).
# The list must be empty while learning, otherwise the demand rule would already fire on what is being observed.
set -e
cd "$(dirname "$0")/.."
seeds=${*:-"301 302 303"}
mkdir -p /var/tmp/learn_typed
cp worlds/tcorp/deliverable.json /var/tmp/learn_typed/previous.json 2>/dev/null || true
echo '{}' > worlds/tcorp/deliverable.json
files=""
for s in $seeds; do
  VERIF_SEED=$s VERIF_X_SCALE=0.5 VERIF_TYPED_LEARN=/var/tmp/learn_typed/learn_$s.json ./check C01 thorough > /var/tmp/learn_typed/learn_$s.log 2>&1 || true
  files="$files /var/tmp/learn_typed/learn_$s.json"
done
python3 tools/merge_learn.py worlds/tcorp/deliverable.json $files
