#!/usr/bin/env python3
"""merge_learn.py out.json learn1.json learn2.json ...

Builds worlds/tcorp/deliverable.json from observations (VERIF_TYPED_LEARN files written by `./check C01 thorough`):
an operation (per value range, see opKey) is listed in the request direction when every one of its core-domain,
fault-free calls reached the handler in every observation file and there were at least MIN of them; a response
variant is listed when every time a handler returned it the caller received a value, with at least MIN returns.
The list is guarded by the document's hash."""
import json, sys
MIN = 40
out_path, files = sys.argv[1], sys.argv[2:]
acc = {}
for f in files:
    d = json.load(open(f))
    for pkg, l in d.items():
        a = acc.setdefault(l['Spec'], {'sha': l['SHA'], 'ops': {}, 'bad': False})
        if a['sha'] != l['SHA']:
            a['bad'] = True
        for op, o in l['Ops'].items():
            x = a['ops'].setdefault(op, {'core': 0, 'reached': 0, 'resp': {}})
            x['core'] += o['Core']; x['reached'] += o['Reached']
            for v, (ret, got) in (o.get('Resp') or {}).items():
                y = x['resp'].setdefault(v, [0, 0]); y[0] += ret; y[1] += got
res = {}
nreq = nresp = 0
for spec, a in sorted(acc.items()):
    if a['bad']:
        continue
    req = sorted(op for op, x in a['ops'].items() if x['core'] >= MIN and x['reached'] == x['core'])
    resp = {}
    for op, x in sorted(a['ops'].items()):
        vs = sorted(v for v, (ret, got) in x['resp'].items() if ret >= MIN and got == ret)
        if vs:
            resp[op] = vs
    nreq += len(req); nresp += sum(len(v) for v in resp.values())
    res[spec] = {'sha': a['sha'], 'req': req, 'resp': resp}
json.dump(res, open(out_path, 'w'), indent=1, sort_keys=True)
print('documents', len(res), 'request entries', nreq, 'response entries', nresp)
