#!/bin/bash
# verify_seed.sh <seedout-name> <property> <id>
# Confirms a sub-agent's seeded change independently in a fresh scratch worktree:
# applies to a clean checkout, builds, passes the pinned suite (only the baseline's always-failing k8s subtest may fail),
# its demonstration fails with the change and passes without. On success stores it as /verif/seeded/<id>/.
set -u
name=$1; prop=$2; id=$3
export GOFLAGS=-mod=mod GOPROXY=off GOSUMDB=off GOTOOLCHAIN=local
src=/tmp/seedout/$name
wt=/tmp/wt/verify_$name
log=/tmp/seedout/verify_$name.log
exec >"$log" 2>&1
git -C /repo worktree remove --force "$wt" 2>/dev/null
git -C /repo worktree add -q --detach "$wt" HEAD || { echo "RESULT worktree-failed"; exit 1; }
cleanup() { git -C /repo worktree remove --force "$wt"; }
trap cleanup EXIT
cd "$wt"
echo "== demo on clean tree"
bash "$src/run.sh" "$wt"; clean_rc=$?
echo "clean_rc=$clean_rc"
git apply "$src/patch.diff" || { echo "RESULT patch-does-not-apply"; exit 1; }
git status --short
echo "== build"
go build ./... || { echo "RESULT build-fails"; exit 1; }
echo "== suite"
go test -vet=off -count=1 ./... > "$log.suite" 2>&1
fails=$(grep -E "^(--- FAIL|FAIL)" "$log.suite" | grep -v "k8s\|TestGenerate/Examples (\|TestGenerate (\|^FAIL$\|^FAIL	github.com/ogen-go/ogen	" )
grep -E "^(ok|FAIL|---)" "$log.suite" | head -60
if [ -n "$fails" ]; then echo "unexpected failures: $fails"; echo "RESULT suite-fails"; exit 1; fi
echo "== demo on changed tree"
bash "$src/run.sh" "$wt"; changed_rc=$?
echo "changed_rc=$changed_rc"
git status --short
if [ "$clean_rc" != 0 ]; then echo "RESULT demo-fails-on-clean-tree"; exit 1; fi
if [ "$changed_rc" = 0 ]; then echo "RESULT demo-passes-with-change"; exit 1; fi
dst=/verif/seeded/$id
rm -rf "$dst"; mkdir -p "$dst/demo"
cp "$src/patch.diff" "$dst/patch.diff"
( cd "$src" && for f in *; do case "$f" in patch.diff|work|*.log) ;; *) cp -r "$f" "$dst/demo/";; esac; done )
rm -rf "$dst/demo/work"
cat > "$dst/meta.json" <<M
{
 "id": "$id",
 "property": "$prop",
 "origin": "sub-agent $name, given only the property text and a scratch worktree",
 "confirmed": {
  "applies_to_clean_checkout": true,
  "go_build": "ok",
  "pinned_suite": "go test -vet=off -count=1 ./... : only TestGenerate/Examples/k8s/Gen (+parents) fails, as on the unchanged tree",
  "demo_on_unchanged_tree_exit": $clean_rc,
  "demo_with_change_exit": $changed_rc,
  "how": "tools/verify_seed.sh in a fresh worktree of /repo HEAD, removed afterwards"
 },
 "needs_to_manifest": "see demo/NOTES.md",
 "detected_by": "pending"
}
M
echo "RESULT confirmed"
