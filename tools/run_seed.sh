#!/bin/bash
# run_seed.sh <seeded-id> <check-id> [tier]: runs a check against a seeded change. The change is applied in a scratch worktree
# of /repo (removed afterwards) and the check is pointed at it with VERIF_REPO, so /repo itself is never modified and background
# runs that read /repo are not disturbed. (Equivalent to `git -C /repo apply`, run, `git -C /repo checkout -- .`.)
# Output: /tmp/seedrun/<id>.<check>.out (last line: exit=<code>).
id=$1; chk=$2; tier=${3:-quick}
mkdir -p /tmp/seedrun
out=/tmp/seedrun/$id.$chk.out
wt=/tmp/wt/run_${id}_$chk
git -C /repo worktree remove --force $wt 2>/dev/null
git -C /repo worktree add -q --detach $wt HEAD || { echo "worktree failed" > $out; exit 2; }
trap "git -C /repo worktree remove --force $wt" EXIT
git -C $wt apply /verif/seeded/$id/patch.diff || { echo "patch does not apply" > $out; exit 2; }
( cd /verif && VERIF_REPO=$wt ./check $chk $tier > $out 2>&1; echo "exit=$?" >> $out )
tail -1 $out
