#!/bin/bash
# run_seed.sh <seeded-id> <check-id> [tier]: applies /verif/seeded/<id>/patch.diff to /repo, starts the check, reverts /repo as soon
# as the check has taken its scratch copy. Output: /tmp/seedrun/<id>.<check>.out (last line: exit=<code>).
id=$1; chk=$2; tier=${3:-quick}
mkdir -p /tmp/seedrun
out=/tmp/seedrun/$id.$chk.out
(
 flock 9
 git -C /repo apply /verif/seeded/$id/patch.diff || { echo "patch does not apply" > $out; exit 1; }
 ( cd /verif && VERIF_SCRATCH=/var/tmp ./check $chk $tier > $out 2>&1; echo "exit=$?" >> $out ) &
 for i in $(seq 1 300); do grep -q "scratch copy of" $out 2>/dev/null && break; sleep 0.2; done
 git -C /repo checkout -- . 
 [ -z "$(git -C /repo status --porcelain)" ] || echo "WARNING repo not clean" >> $out
) 9>/tmp/seedrun/lock
wait
