#!/bin/bash
# replay_test.sh <seeded-id> <check-id>: in a scratch worktree with the seeded change applied, runs the quick check, then replays
# the first replay file it wrote and verifies that the replay reports a violation with the same key. /repo is not touched.
id=$1; chk=$2
wt=/tmp/wt/replay_$id
out=/tmp/seedrun/replay_$id.out
mkdir -p /tmp/seedrun
git -C /repo worktree remove --force $wt 2>/dev/null
git -C /repo worktree add -q --detach $wt HEAD || exit 2
trap "git -C /repo worktree remove --force $wt" EXIT
git -C $wt apply /verif/seeded/$id/patch.diff || { echo "patch does not apply"; exit 2; }
cd /verif
VERIF_REPO=$wt ./check $chk quick > $out 2>&1
rc=$?
rp=$(grep -m1 "^VIOLATION" $out | sed 's/.*replay=//')
echo "check exit=$rc replay=$rp"
[ -n "$rp" ] || { echo "RESULT no-replay-file"; exit 1; }
key=$(python3 -c "import json;print(json.load(open('$rp'))['key'])")
VERIF_REPO=$wt ./check --replay $rp > $out.replay 2>&1
rrc=$?
grep "^replay:\|^VIOLATION" $out.replay | head -3
rp2=$(grep -m1 "^VIOLATION" $out.replay | sed 's/.*replay=//')
key2=""
[ -n "$rp2" ] && key2=$(python3 -c "import json;print(json.load(open('$rp2'))['key'])")
echo "key : $key"
echo "key2: $key2"
# and on the unchanged tree the same replay file must be clean
./check --replay $rp > $out.replay0 2>&1; rc0=$?
echo "replay on changed tree exit=$rrc, on unchanged tree exit=$rc0"
if [ $rrc = 1 ] && [ "$key" = "$key2" ] && [ $rc0 = 0 ]; then echo "RESULT replay-reproduces"; else echo "RESULT replay-mismatch"; fi
